"""C04 - train/inference consistency of the DataFrame-to-TensorFrame converter."""
import copy
import traceback

from harness import core
from harness import matgen as mg
from harness.props import c01, c02

UNSEEN_STR, UNSEEN_INT, UNSEEN_TOK = 'never-seen', 997, 'unseen-tok'


def call_frame(frame, call):
    """the abstract frame a converter call receives: the listed rows of the source (repeats, any order) with
    unseen categories / tokens injected, optionally without the target column"""
    rows = call['rows']
    cols = []
    for col in frame['cols']:
        if call.get('drop_target') and col['name'] == frame['target']:
            continue
        c2 = dict(col)
        c2['cells'] = [copy.deepcopy(col['cells'][i]) for i in rows]
        cols.append(c2)
    byname = {c['name']: c for c in cols}
    for name, k, val in call.get('inject', []):
        col = byname.get(name)
        if col is None:
            continue
        if col['stype'] == 'categorical':
            col['cells'][k] = val
        else:
            cell = col['cells'][k]
            col['cells'][k] = (list(cell) if cell else []) + [val]
    return {'n': len(rows), 'cols': cols, 'target': None if call.get('drop_target') else frame['target']}


def gen_call(rng, frame):
    n = frame['n']
    kind = rng.choice(['all', 'multiset', 'multiset', 'single', 'perm', 'repeat'])
    if kind == 'all':
        rows = list(range(n))
    elif kind == 'single':
        rows = [rng.randrange(n)]
    elif kind == 'perm':
        rows = rng.sample(range(n), n)
    elif kind == 'repeat':
        rows = [rng.randrange(n)] * rng.randint(2, 4)
    else:
        rows = [rng.randrange(n) for _ in range(rng.randint(1, 9))]
    call = {'kind': kind, 'rows': rows, 'drop_target': frame['target'] is not None and rng.random() < 0.3,
            'how': rng.choice(['iloc', 'iloc', 'fresh']), 'inject': []}
    if rng.random() < 0.45:
        for col in frame['cols']:
            if col['name'] == frame['target'] or col['stype'] not in ('categorical', 'multicategorical'):
                continue
            for k in range(len(rows)):
                if rng.random() < 0.3:
                    if col['stype'] == 'categorical':
                        ints = any(isinstance(c, int) for c in col['cells'])
                        if col['r']['dtype'] in ('Int64', 'int64', 'float64') or ints:
                            call['inject'].append([col['name'], k, UNSEEN_INT])
                        else:
                            call['inject'].append([col['name'], k, UNSEEN_STR])
                    else:
                        call['inject'].append([col['name'], k, UNSEEN_TOK])
        if call['inject']:
            call['how'] = 'fresh'
    if call['how'] == 'fresh':
        call['labels'] = mg.gen_labels(rng, len(rows), rng.choice(['range', 'dup', 'str', 'offset', 'perm']))
        k = len(frame['cols']) - (1 if call['drop_target'] else 0)
        call['dfperm'] = rng.sample(range(k), k)
    return call


class C04(core.Check):
    pid = 'C04'
    driver = 'drv_c01'
    quick_cases = 800
    thorough_cases = 9000
    rule = ("C01's abstract frames (optionally under a non-default index) are materialized - half of them a second time "
            'with the col_stats of the first materialization supplied - and the dataset\'s converter is then called 1-4 '
            'times in a row on: the whole frame, a single row, a permutation, one row repeated, random row multisets '
            '(1-9 picks); either as df.iloc[rows] (duplicate labels) or as a freshly rendered frame with its own '
            'labelling and column order; 45% of the calls carry unseen categorical values / unseen multicategorical '
            'tokens in ~30% of their cells; 30% of the calls lack the target column. Compared with the Lean state '
            'machine: every cell of every returned frame, y, the converter\'s col_names_dict after every call, the '
            'frame and statistics under supplied col_stats; plus convert(df.iloc[rows]) == tensor_frame[rows] through '
            'the library. Non-trivial = at least one call returned a frame; distinct = hash of the case.')
    partial_notes = (
        'theorems are stated inside the typed domain (ConvFrameOK / CallOK: distinct column names, no text_tokenized '
        'column, >= 1 row, one cell per row, every plain embedding column fitted with a width >= 0 that all its vectors '
        'have); the empty selection df.iloc[[]] is outside it (the mappers need >= 1 row) and is not generated',
        'convert_rows compares cell-wise through the frame\'s own lookup table (get_col_feat) and y; that this equals '
        'TensorFrame.__getitem__ (tensor_frame[idx]) is C07\'s theorem and is checked here on the real objects only',
        'the aliasing itself (the converter\'s dict object is shared with every returned TensorFrame) is not '
        'expressible in the functional model: the model threads the name table as state; the harness checks the '
        'real dict after every call',
        'pandas parsing / dtype inference of the converted frame is outside the model (abstract cells)',
        'tensor_frame[rows] (row selection of a TensorFrame) belongs to C07; here it is only used as a second '
        'witness through the library\'s own ==',
    )

    def __init__(self):
        self._side = {}

    def generate(self, rng, n, tier):
        for k in range(n):
            focus = [None, 'multicategorical', 'categorical', 'text_embedded', 'embedding', 'image_embedded'][k % 6]
            if k % 89 == 7:
                # a long frame (size-gated code paths: whole-frame conversion vs. short selections of it)
                frame = mg.gen_frame(rng, n=rng.randint(1024, 1100), ncols=rng.choice([1, 2, 3]),
                                     focus=rng.choice(['categorical', 'multicategorical', None]))
            else:
                frame = mg.gen_frame(rng, focus=focus)
            labels = mg.gen_labels(rng, frame['n']) if rng.random() < 0.3 else mg.gen_labels(rng, frame['n'], 'range')
            yield {'frame': frame, 'labels': labels, 'supplied': rng.random() < 0.5,
                   'calls': [gen_call(rng, frame) for _ in range(rng.randint(1, 4))]}

    # ------------------------------------------------------------------ real
    def real(self, case):
        from torch_frame.data import Dataset
        frame = case['frame']
        side = {'cats': {}, 'errors': [], 'lib_eq': []}
        self._side[id(case)] = side
        st, ds, _ = c01.materialize_real(frame, case['labels'])
        if st == 'raises':
            side['errors'].append(ds)
            return 'raises'
        first_view = mg.canon_tf(ds.tensor_frame)
        first_stats = mg.canon_stats_full(ds.col_stats)
        if case['supplied']:
            try:
                df = mg.render(frame, case['labels'])
                c2s, kw, _ = mg.dataset_kwargs(frame)
                ds2 = Dataset(df, c2s, **kw).materialize(col_stats=ds.col_stats)
                side['supplied_same'] = (mg.canon_tf(ds2.tensor_frame) == first_view and
                                         mg.canon_stats_full(ds2.col_stats) == first_stats and
                                         (c02.nan_target(frame) or bool(ds2.tensor_frame == ds.tensor_frame)))
                ds = ds2
            except Exception as e:   # noqa
                side['errors'].append(f'materialize(col_stats=...): {type(e).__name__}: {str(e)[:200]}')
                return 'raises'
        out = {'tf': mg.canon_tf(ds.tensor_frame), 'stats': mg.model_stats(ds.col_stats), 'calls': []}
        side['cats'] = {c: s['cats'] for c, s in out['stats'].items()}
        conv = ds.convert_to_tensor_frame
        base_df = ds.df
        for call in case['calls']:
            cf = call_frame(frame, call)
            try:
                if call['how'] == 'iloc':
                    df = base_df.iloc[call['rows']]
                    if call['drop_target']:
                        df = df.drop(columns=[frame['target']])
                else:
                    df = mg.render(cf, call['labels'], call['dfperm'])
                tf = conv(df)
                out['calls'].append({'ok': {'tf': mg.canon_tf(tf), 'convNames': mg.canon_names(conv.col_names_dict)}})
                if call['how'] == 'iloc' and not call['drop_target'] and not c02.nan_target(frame):
                    side['lib_eq'].append((call['rows'], bool(tf == ds.tensor_frame[call['rows']])))
            except Exception as e:   # noqa
                side['errors'].append(f'{type(e).__name__}: {str(e)[:200]} @ {traceback.format_exc().splitlines()[-3].strip()[:100]}')
                out['calls'].append('raises')
        return {'ok': out}

    # ------------------------------------------------------------------ model
    def model_requests(self, case):
        frame = case['frame']
        side = self._side.get(id(case), {'cats': {}})
        req = {'cmd': 'conv', 'supplied': case['supplied']}
        req.update(mg.model_frame(frame, side['cats'], case['labels']))
        req['labels'] = [mg.model_label(v) for v in req['labels']]
        calls = []
        for call in case['calls']:
            cf = call_frame(frame, call)
            if call['how'] == 'iloc':
                labels = [case['labels']['values'][i] for i in call['rows']]
                order = None
            else:
                labels, order = call['labels']['values'], call['dfperm']
            calls.append({'labels': [mg.model_label(v) for v in labels], 'cols': mg.model_cols(cf, order=order)})
        req['calls'] = calls
        return [req]

    def model_outcome(self, case, replies):
        rep = replies[0]
        if not isinstance(rep, dict) or 'ok' not in rep:
            return rep
        frame = case['frame']
        o = dict(rep['ok'])
        o['tf'] = mg.sort_multicat(o['tf'], frame)
        calls = []
        for c in o['calls']:
            if isinstance(c, dict) and 'ok' in c:
                calls.append({'ok': {'tf': mg.sort_multicat(c['ok']['tf'], frame), 'convNames': c['ok']['convNames']}})
            else:
                calls.append(c)
        o['calls'] = calls
        return {'ok': o}

    # ------------------------------------------------------------------ oracle
    def oracle(self, case, real_outcome):
        frame = case['frame']
        side = self._side.get(id(case), {})
        errs = side.get('errors', [])
        if real_outcome == 'raises':
            return core.Violation('materialize-raises', f'materialize() raised on an in-domain frame: {errs[:1]}', case,
                                  'a TensorFrame', errs[:1])
        o = real_outcome['ok']
        if case['supplied'] and not side.get('supplied_same', False):
            return core.Violation('supplied-stats', 'materialize(col_stats=<the statistics of a first materialization>) '
                                  'differs from materialize()', case, 'same TensorFrame and col_stats', 'different')
        v = c01.check_cells(frame, o['tf'], o['stats'], 'materialized frame')
        if v:
            return core.Violation(v[0], v[1], case, v[2], v[3])
        base = o['tf']
        merged_names = mg.expected_names(frame)
        for k, (call, c) in enumerate(zip(case['calls'], o['calls'])):
            tag = f"call {k + 1}/{len(case['calls'])} ({call['kind']}, {call['how']}" + \
                  (', unseen values' if call['inject'] else '') + (', no target' if call['drop_target'] else '') + ')'
            if c == 'raises':
                key = 'convert-raises/unseen' if call['inject'] else 'convert-raises'
                return core.Violation(key, f'converter raised on {tag}: {errs[:1]}', case, 'a TensorFrame', errs[:1])
            tf = c['ok']['tf']
            cf = call_frame(frame, call)
            # (a) straight from the text: the encoding of every cell of the converted frame under the FITTED lists
            v = c01.check_cells(cf, tf, o['stats'], tag, fitted=True)
            if v:
                return core.Violation(f'convert/{v[0]}', v[1], case, v[2], v[3])
            # (b) metamorphic: rows of the materialized frame, wherever nothing was injected
            injected = {(nm, kk) for nm, kk, _ in call['inject']}
            for name, cells in tf['cells'].items():
                for kk, (i, cell) in enumerate(zip(call['rows'], cells)):
                    if (name, kk) not in injected and cell != base['cells'][name][i]:
                        return core.Violation('convert/row-locality', f'{tag}: column {name!r} row {kk} is not row {i} of the '
                                              f'materialized frame', case, base['cells'][name][i], cell)
            if not call['drop_target'] and base['y'] is not None:
                if tf['y'] != [base['y'][i] for i in call['rows']]:
                    return core.Violation('convert/y', f'{tag}: y is not the selected rows of the materialized y', case,
                                          [base['y'][i] for i in call['rows']], tf['y'])
            if call['drop_target'] and tf['y'] is not None:
                return core.Violation('convert/y-without-target', f'{tag}: y present although the frame has no target column',
                                      case, None, tf['y'])
            for name, kk, val in call['inject']:
                cell = tf['cells'][name][kk]
                col = next(cc for cc in frame['cols'] if cc['name'] == name)
                if col['stype'] == 'categorical' and cell != [-1]:
                    return core.Violation('convert/unseen-category', f'{tag}: unseen category {val!r} encoded as {cell}', case,
                                          [-1], cell)
            if c['ok']['convNames'] != merged_names or tf['names'] != merged_names:
                return core.Violation('convert/name-table', f'{tag}: the converter\'s col_names_dict is not the merged canonical '
                                      f'schema after the call', case, merged_names, c['ok']['convNames'])
        for rows, eq in side.get('lib_eq', []):
            if not eq:
                return core.Violation('convert/lib-eq', f'convert(df.iloc[{rows}]) != tensor_frame[{rows}] through TensorFrame.__eq__',
                                      case, True, False)
        return None

    def nontrivial_key(self, case, real_outcome):
        if real_outcome == 'raises' or all(c == 'raises' for c in real_outcome['ok']['calls']):
            return None
        return core.stable_hash(case)

    def classify(self, case, real_outcome):
        frame = case['frame']
        labs = [f"rows:{frame['n']}", f"cols:{len(frame['cols'])}", f"calls:{len(case['calls'])}",
                f"supplied-stats:{case['supplied']}", f"labels:{case['labels']['kind']}",
                'outcome:' + ('raises' if real_outcome == 'raises' else 'ok')]
        tcol = next((c for c in frame['cols'] if c['name'] == frame['target']), None)
        labs.append('target:' + (tcol['stype'] if tcol else 'none'))
        for k, call in enumerate(case['calls']):
            labs += [f"call:{call['kind']}", f"call:how:{call['how']}"]
            if call['inject']:
                labs.append('call:unseen-values')
            if call['drop_target']:
                labs.append('call:no-target')
            if len(set(call['rows'])) < len(call['rows']):
                labs.append('call:repeated-rows')
            if real_outcome != 'raises':
                labs.append('call:' + ('raises' if real_outcome['ok']['calls'][k] == 'raises' else 'ok'))
        for st in {c['stype'] for c in frame['cols']}:
            labs.append(f'stype:{st}')
        kinds = {c['stype'] for c in frame['cols'] if c['name'] != frame['target']}
        if len(kinds & {'embedding', 'text_embedded', 'image_embedded'}) > 1 or \
                (kinds & {'text_embedded', 'image_embedded'}):
            labs.append('name-table-rewritten-by-merge')
        return sorted(set(labs))


CHECK = C04()

"""C10 - a data-loader epoch is an exact partition of the rows."""
import torch

from torch_frame.data import DataLoader

from harness import core, frame, ragged, stress


class Recorder:
    """wraps the loader's index sampler and records the order it hands to the batch sampler"""

    def __init__(self, inner):
        self.inner, self.seen = inner, []

    def __iter__(self):
        for i in self.inner:
            self.seen.append(int(i))
            yield i

    def __len__(self):
        return len(self.inner)


def _raising_collate(batch):
    raise RuntimeError('user collate_fn must never be called')


class C10(frame.Findings, core.Check):
    pid = 'C10'
    title = 'A data-loader epoch is an exact partition of the rows'
    driver = 'drv_c07'
    quick_cases = 3000
    thorough_cases = 24000
    rule = ('hardening families: special values / float64 features / dict key orders of C07; a second epoch on the same '
            'loader (25%); scale (36 / 150 / 300 cases at stress level 0 / 1 / 2): frames with 17..259 / 4 099 rows (all-empty '
            'ragged rows), long cells, many columns, datasets with up to 259 / 1 027 rows, batch sizes from the ladder and '
            'around the row count, shuffled / explicit permutation samplers / explicit batch lists that are long structured '
            'index lists; heavy frames (5 / 30 / 40) where ONE batch gathers >= 16 385 / 32 769 values of a ragged feature; '
            'base: frames of C07 carrying a row-id column (0-7 rows, every storage kind) and small Datasets (1-7 rows, '
            'materialized or not, text-embedded columns through a stub embedder) x batch_size 1..n+1 / None / 0 x shuffle x '
            'drop_last x explicit samplers (arbitrary index lists incl. repeats and out-of-range entries) x explicit '
            'batch_samplers x a raising user collate_fn; the order of a shuffling sampler is recorded and fed to the '
            'model; non-trivial = at least one non-empty batch was produced; distinct = distinct case hash')
    partial_notes = (
        'torch.utils.data.BatchSampler / RandomSampler are modelled from their documentation (the sampler order is an '
        'input of the model); tied by this correspondence',
        'batch_is_selection rests on C07 (getitem_rows) for the storage kind of every feature',
        '"an unmaterialized dataset serves the same rows as materializing it first" and "a user collate_fn cannot replace '
        'the collation" are properties of DataLoader.__init__ checked on the real objects only',
        'the source frame is left unchanged: snapshot before/after on the real objects',
    )

    N_SCALE = {0: 36, 1: 150, 2: 300}
    N_HEAVY = {0: 5, 1: 30, 2: 40}
    N_HUGE = {0: 0, 1: 0, 2: 3}      # 16 385 .. 65 539 rows: judged by the direct oracle only

    def generate(self, rng, n, tier):
        lv = self.level
        n_ds = max(20, n // 12)
        n_heavy, n_scale = min(self.N_HEAVY[lv], n // 4), min(self.N_SCALE[lv], n // 2)
        for i in range(n):
            case = {'seed': rng.randrange(10 ** 6)}
            scaled = None
            if i < self.N_HUGE[lv]:
                scaled = 'huge'
                case['src'] = 'frame'
                case['frame'] = frame.gen_frame_scaled(rng, lv, 'rows', R=rng.choice(stress.LADDER_BIG) + rng.choice([0, 1, 2]),
                                                       rowid=True, pool='full')
                case['oracle_only'] = True
                rows = case['frame']['R']
            elif i < n_heavy:
                # one batch gathers >= 16 385 / 32 769 values of a ragged feature (rows with all-empty cells included)
                scaled = 'heavy'
                case['src'] = 'frame'
                case['frame'] = frame.gen_frame_scaled(rng, lv, 'heavy', rowid=True, pool='full')
                rows = case['frame']['R']
            elif i < n_heavy + n_scale:
                scaled = rng.choice(['rows', 'rows', 'rows', 'rows', 'longcells', 'cols', 'dataset'])
                if scaled == 'dataset':
                    case['src'] = 'dataset'
                    case['dataset'] = frame.gen_dataset(rng, stress.pick_size(rng, min(lv, 1), 1027))
                    case['materialized'] = rng.random() < .4
                    rows = case['dataset']['n']
                else:
                    case['src'] = 'frame'
                    case['frame'] = frame.gen_frame_scaled(rng, lv, scaled, rowid=True, pool='full')
                    rows = case['frame']['R']
            elif i < n_heavy + n_scale + n_ds:
                case['src'] = 'dataset'
                case['dataset'] = frame.gen_dataset(rng)
                case['materialized'] = rng.random() < .4
                rows = case['dataset']['n']
            else:
                case['src'] = 'frame'
                case['frame'] = frame.gen_frame(rng, rowid=True, allow_empty=False, pool='full')
                rows = case['frame']['R']
            u = rng.random()
            weights = frame.row_weights(case['frame']) if scaled and case['src'] == 'frame' else None
            fits = lambda idx: weights is None or sum(weights[i_] for i_ in idx if 0 <= i_ < rows) <= ragged.BUDGET[lv]
            case.update(bs=rng.choice([1, 1, 2, 2, 3, 4, rows, rows + 1, max(rows - 1, 1), rng.randint(1, rows + 1)]),
                        shuffle=False, drop_last=rng.random() < .4, sampler=None, batch_sampler=None,
                        collate=rng.random() < .3, epochs=2 if rng.random() < .25 else 1)
            if scaled:
                case['scaled'] = scaled
                # batch sizes from the ladder (and around the row count): few, large batches
                case['bs'] = rng.choice([rows, rows + 1, max(rows - 1, 1), max(rows // 2, 1), max(rows // 3, 1),
                                         stress.pick_size(rng, lv, max(rows, 17)), stress.pick_size(rng, lv, max(rows, 17))])
                if scaled == 'heavy':
                    case['bs'] = rng.choice([rows, rows + 1, max(rows - 1, 1), max(rows - rows // 8, 1)])
                u = rng.choice([.1, .1, .4, .4, .4, .8, .8]) if u >= .6 else u   # shuffle / sampler / sequential only
            if u < .33:
                case['shuffle'] = True
            elif u < .5:
                if rows and rng.random() < .4:
                    perm = list(range(rows))
                    rng.shuffle(perm)
                    case['sampler'] = perm
                else:
                    bad = rng.random() < .12
                    k = rng.randint(0, rows + 2)
                    if rows == 0 and not bad:
                        case['sampler'] = []
                    else:
                        hi = max(rows - 1 + (2 if bad else 0), 0)
                        case['sampler'] = [rng.randint(0, hi) for _ in range(k)]
                        for _ in range(12):
                            if fits(case['sampler']):
                                break
                            case['sampler'] = [rng.randint(0, hi) for _ in range(k)]
                        else:
                            case['sampler'] = list(range(rows))
            elif u < .6:
                bs = []
                for _ in range(rng.randint(0, 4)):
                    bs.append([rng.randrange(rows) for _ in range(rng.randint(0, 3))] if rows else [])
                if scaled and rows:
                    # explicit batches with long structured index lists (runs, reversed, sorted with duplicates, ...)
                    bs = []
                    for _ in range(rng.randint(1, 3)):
                        for attempt in range(200):
                            ix = ragged.gen_big_index(rng, rows, lv, allow_bad=False, max_len=rows + 2)
                            if ix['t'] == 'list' and fits([i_ % rows for i_ in ix['is']]):
                                break
                        else:
                            ix = {'is': list(range(rows - 1, -1, -1))}
                        bs.append([i_ % rows for i_ in ix['is']])
                case['batch_sampler'] = bs
            elif u < .68:
                case['bs'] = None
                if rng.random() < .3:
                    case['drop_last'] = True   # rejected by PyTorch
                else:
                    case['drop_last'] = False
            elif u < .72:
                case['bs'] = 0
            yield case

    # -- real side -----------------------------------------------------------------------------------
    def source(self, case):
        """(object handed to DataLoader, the frame the rows must come from, reference of that frame or None)"""
        if case['src'] == 'frame':
            tf = frame.build_real(case['frame'])
            return tf, tf, frame.ref_of_spec(case['frame'])
        ds = frame.build_dataset(case['dataset'])
        mat = frame.build_dataset(case['dataset']).materialize().tensor_frame
        if case['materialized']:
            ds.materialize()
        return ds, mat, None

    @staticmethod
    def row_ids(tf):
        from torch_frame import stype
        names = tf.col_names_dict[stype.numerical]
        j = [k for k, nm in enumerate(names) if nm.endswith('row_id')][0]
        return [int(x) for x in tf.feat_dict[stype.numerical][:, j].tolist()]

    def real(self, case):
        self._findings = []
        out = self._real(case)
        self.remember(case, self._findings)
        return out

    def _real(self, case):
        F = self._findings
        src, mat, ref = self.source(case)
        n = len(mat)
        before = frame.frame_repr(mat)
        kw = {}
        if case['batch_sampler'] is not None:
            kw['batch_sampler'] = [list(b) for b in case['batch_sampler']]
        else:
            kw.update(batch_size=case['bs'], drop_last=case['drop_last'])
            if case['sampler'] is not None:
                kw['sampler'] = list(case['sampler'])
            else:
                kw['shuffle'] = case['shuffle']
                if case['shuffle']:
                    kw['generator'] = torch.Generator().manual_seed(case['seed'])
        if case['collate']:
            kw['collate_fn'] = _raising_collate
        try:
            loader = DataLoader(src, **kw)
        except Exception:
            if case['collate']:
                kw2 = {k: v for k, v in kw.items() if k != 'collate_fn'}
                try:
                    DataLoader(src, **kw2)
                    F.append(('loader/collate', 'a user-supplied collate_fn changes what the loader does', None, None))
                except Exception:
                    pass
            return 'raises'
        rec = None
        if loader.batch_sampler is not None and case['batch_sampler'] is None:
            rec = Recorder(loader.batch_sampler.sampler)
            loader.batch_sampler.sampler = rec
        if not hasattr(self, '_orders'):
            self._orders = {}
        orders = self._orders[core.stable_hash(case)] = []
        out = {}
        # history on one object: a second epoch of the SAME loader is judged like the first one
        for ep in range(case.get('epochs', 1)):
            if rec is not None:
                rec.seen = []
            try:
                batches = list(loader)
            except Exception as e:
                if rec is not None and case['shuffle']:
                    orders.append(list(rec.seen))
                if case['collate'] and 'user collate_fn' in str(e):
                    F.append(('loader/collate', 'the user-supplied collate_fn replaced the row-selection collation', None, None))
                return 'collate-raises'
            if case['batch_sampler'] is not None:
                order = [i for b in case['batch_sampler'] for i in b]
            elif rec is not None:
                order = list(rec.seen)
            else:
                order = list(case['sampler']) if case['sampler'] is not None else list(range(n))
            # the draw of a shuffling sampler is an input of the model: remember it for the model request of this case
            orders.append(list(order))
            ids = [self.row_ids(b) for b in batches]
            out['ok' if ep == 0 else 'ok2'] = {'batches': ids, 'frames': [frame.frame_repr(b) for b in batches]}
            self.judge_epoch(case, loader, mat, ref, n, order, batches, ids)
        if frame.frame_repr(mat) != before:
            F.append(('loader/mutates', 'iterating the loader modified the source frame', None, None))
        return out

    def judge_epoch(self, case, loader, mat, ref, n, order, batches, ids):
        """direct oracle on the property text for one epoch"""
        F = self._findings
        bs, dl = case['bs'], case['drop_last']
        flat = [i for b in ids for i in b]
        if case['batch_sampler'] is not None:
            if ids != [list(b) for b in case['batch_sampler']]:
                F.append(('loader/batch-sampler', 'batches differ from the explicit batch sampler', None, None))
        else:
            if case['sampler'] is None:
                if case['shuffle']:
                    if sorted(order) != list(range(n)):
                        F.append(('loader/perm', 'the shuffled order is not a permutation of the rows', None, order[:50]))
                elif order != list(range(n)):
                    F.append(('loader/order', 'without shuffling the rows are not served in order', None, order[:50]))
            if bs is None:
                keep = len(order)
                sizes_ok = all(len(b) == 1 for b in ids)
            else:
                keep = (len(order) // bs) * bs if dl else len(order)
                sizes_ok = all(len(b) == bs for b in ids[:-1]) and (not ids or (1 <= len(ids[-1]) <= bs)) \
                    and (not dl or all(len(b) == bs for b in ids))
                if len(ids) != (len(order) // bs if dl else -(-len(order) // bs)):
                    sizes_ok = False
            if flat != order[:keep]:
                F.append(('loader/coverage', 'the batches do not contain exactly the rows of the epoch, once each, in '
                          'sampler order', order[:keep][:50], flat[:50]))
            elif not sizes_ok:
                F.append(('loader/sizes', 'batch sizes are not batch_size with a smaller / dropped last batch', bs,
                          [len(b) for b in ids][:50]))
            try:
                if len(loader) != len(ids):
                    F.append(('loader/len', 'len(loader) differs from the number of batches', len(loader), len(ids)))
            except TypeError:
                pass
        for b, bid in zip(batches, ids):
            sel = mat[list(bid)] if bid else mat[[]]
            if not (b == sel) and not self._nan_y(b):
                F.append(('loader/batch', 'a batch is not equal to selecting its rows from the source frame', None, bid[:50]))
                break
            if ref is not None:
                bad = frame.compare_to_ref(b, frame.ref_select(ref, {'t': 'list', 'is': list(bid)}))
                if bad is not None:
                    F.append(('loader/batch', f'a batch differs from the nested-list rows: {bad}', None, bid[:50]))
                    break

    @staticmethod
    def _nan_y(tf):
        return tf.y is not None and tf.y.is_floating_point() and bool(torch.isnan(tf.y).any())

    # -- model side ----------------------------------------------------------------------------------
    def model_requests(self, case):
        if case.get('oracle_only'):
            return []
        if case['src'] == 'frame':
            fr = frame.model_frame(case['frame'])
            n = case['frame']['R']
        else:
            fr = frame.frame_repr(frame.build_dataset(case['dataset']).materialize().tensor_frame)
            n = case['dataset']['n']
        orders = getattr(self, '_orders', {}).get(core.stable_hash(case)) or []
        dflt = list(case['sampler']) if case['sampler'] is not None else list(range(n))
        reqs = []
        for ep in range(max(len(orders), 1)):
            rq = {'cmd': 'epoch', 'order': orders[ep] if ep < len(orders) else dflt, 'bs': case['bs'],
                  'drop_last': case['drop_last'], 'batches': case['batch_sampler'],
                  'shuffle': bool(case['shuffle'] and case['sampler'] is None and case['batch_sampler'] is None)}
            rq['frame'] = fr
            reqs.append(rq)
        return reqs

    def model_outcome(self, case, replies):
        if case.get('oracle_only'):
            return core.SKIP_MODEL
        if len(replies) == 1 or not isinstance(replies[0], dict):
            return replies[0]
        out = {'ok': replies[0]['ok']}
        if not isinstance(replies[1], dict):
            return replies[1]
        out['ok2'] = replies[1]['ok']
        return out

    def oracle(self, case, real_outcome):
        findings = self.recall(case)
        if findings:
            key, what, exp, got = findings[0]
            return core.Violation(key, what, case, exp, got)
        return None

    def nontrivial_key(self, case, out):
        if isinstance(out, dict) and any(out['ok']['batches']):
            return core.stable_hash(case)
        return None

    def classify(self, case, out):
        n = case['frame']['R'] if case['src'] == 'frame' else case['dataset']['n']
        bk = lambda x: str(x) if x <= 7 else '8..16' if x <= 16 else '17..256' if x <= 256 else '257..1024' if x <= 1024 else '1025+'
        bs = case['bs']
        labs = [f"src:{case['src']}" + (f":materialized={case['materialized']}" if case['src'] == 'dataset' else ''),
                f'rows:{bk(n)}', f"batch_size:{'none' if bs is None else 'n+1' if bs == n + 1 else 'n' if bs == n else bs if bs <= 4 else '5..16' if bs <= 16 else bk(bs)}",
                f"drop_last:{case['drop_last']}", f"collate_override:{case['collate']}"]
        mode = 'batch_sampler' if case['batch_sampler'] is not None else 'sampler' if case['sampler'] is not None \
            else 'shuffle' if case['shuffle'] else 'sequential'
        labs.append(f"mode:{mode}:{out if isinstance(out, str) else 'ok'}")
        if case.get('scaled'):
            labs.append(f"scale:{case['scaled']}:{mode}")
        if n >= 257:
            labs.append('scale:rows>=257' if n < 1025 else 'scale:rows>=1025' if n < 16385 else 'scale:rows>=16385(oracle-only)')
        if isinstance(out, dict):
            ids = out['ok']['batches']
            labs.append(f'batches:{min(len(ids), 6)}')
            if 'ok2' in out:
                labs.append('history:second-epoch-on-the-same-loader')
            mx = max([len(b) for b in ids] or [0])
            if mx >= 65:
                labs.append('scale:batch>=1025' if mx >= 1025 else 'scale:batch>=257' if mx >= 257 else 'scale:batch>=65')
            if mx >= 65 and mode in ('shuffle', 'sampler', 'batch_sampler'):
                labs.append('scale:large-batch-in-non-sequential-order')
            if ids and bs and len(ids[-1]) < bs and case['batch_sampler'] is None:
                labs.append('short-last-batch')
            if case['drop_last'] and bs and case['batch_sampler'] is None and n % bs:
                labs.append('dropped-last-batch')
            nv = max([len(m['values']) for fr in out['ok']['frames'] for _, f in fr.get('feats', []) for m in
                      ([f] if f['k'] == 'mnt' else [mm for _, mm in f['d']] if f['k'] == 'dict' else [])
                      if m['values'] != 'bad-ndim'] or [0])
            if nv >= 16385:
                labs.append('scale:batch-gathers-values>=32769' if nv >= 32769 else 'scale:batch-gathers-values>=16385')
        if case['src'] == 'frame':
            labs += [f"kind:{ft['kind']}" for ft in case['frame']['feats']]
            if any(ft['payload'] == 'float64' for ft in case['frame']['feats']):
                labs.append('dtype:float64-feature')
        return labs

    def extra_checks(self, rng, tier, report):
        """exhaustive box: every (rows n, batch_size 1..n+1, drop_last) without shuffling, plus every rotation of the
        rows as an explicit sampler, on a frame holding every storage kind"""
        N = 9 if tier == 'thorough' else 6
        cases = []
        for n in range(0, N + 1):
            spec = frame.fixed_frame(rng, n, ('numerical', 'timestamp', 'multicategorical', 'embedding', 'text_tokenized'),
                                     rowid=True)
            for bs in range(1, n + 2):
                for dl in (False, True):
                    base = {'seed': 0, 'src': 'frame', 'frame': spec, 'bs': bs, 'shuffle': False, 'drop_last': dl,
                            'sampler': None, 'batch_sampler': None, 'collate': False}
                    cases.append(base)
                    if n:
                        k = (bs * 7 + n) % n
                        cases.append(dict(base, sampler=list(range(k, n)) + list(range(k))))
        frame.run_box(self, cases, report, 'batch_box', {'rows': f'0..{N}', 'batch_size': '1..n+1', 'drop_last': 'both'})


CHECK = C10()

"""C10 - a data-loader epoch is an exact partition of the rows."""
import torch

from torch_frame.data import DataLoader

from harness import core, frame, ragged, stress


class Recorder:
    """wraps the loader's index sampler and records the order it hands to the batch sampler"""

    def __init__(self, inner):
        self.inner, self.seen = inner, []

    def __iter__(self):
        for i in self.inner:
            self.seen.append(int(i))
            yield i

    def __len__(self):
        return len(self.inner)


class Reiter:
    """a re-iterable sampler / batch sampler backed by a generator (no list the loader could look into); `items` is
    read again on every pass"""

    def __init__(self, items):
        self.items = items

    def __iter__(self):
        for x in self.items:
            yield x

    def __len__(self):
        return len(self.items)


class ReuseBatches:
    """a batch sampler that owns ONE preallocated list and refills it for every batch (`buf.clear(); buf.extend(...);
    yield buf`): every batch reaches the loader as the same list object with other contents"""

    def __init__(self, batches):
        self.batches, self.buf = batches, []

    def __iter__(self):
        for b in self.batches:
            self.buf.clear()
            self.buf.extend(b)
            yield self.buf

    def __len__(self):
        return len(self.batches)


SAMPLER_STYLES = ['list', 'list', 'tuple', 'tensor', 'tensor-int32', 'numpy', 'generator']
BATCH_STYLES = ['lists', 'lists', 'reused-buffer', 'reused-buffer', 'generator', 'tuples', 'tensors', 'numpy']


def styled_sampler(seq, style):
    import numpy as np
    if style == 'tuple':
        return tuple(seq)
    if style == 'tensor':
        return torch.tensor(seq, dtype=torch.long)
    if style == 'tensor-int32':
        return torch.tensor(seq, dtype=torch.int32)
    if style == 'numpy':
        return np.asarray(seq, dtype=np.int64)
    if style == 'generator':
        return Reiter(list(seq))
    return list(seq)


def styled_batches(objs, style):
    """`objs`: the list objects holding the batches (they may be refilled in place between epochs)"""
    import numpy as np
    if style == 'reused-buffer':
        return ReuseBatches(objs)
    if style == 'generator':
        return Reiter(objs)
    if style == 'tuples':
        return [tuple(b) for b in objs]
    if style == 'tensors':
        return [torch.tensor(b, dtype=torch.long) for b in objs]
    if style == 'numpy':
        return [np.asarray(b, dtype=np.int64) for b in objs]
    return objs


def _raising_collate(batch):
    raise RuntimeError('user collate_fn must never be called')


class C10(frame.Findings, core.Check):
    pid = 'C10'
    title = 'A data-loader epoch is an exact partition of the rows'
    driver = 'drv_c07'
    quick_cases = 3000
    thorough_cases = 24000
    rule = ('the source is a live object: frames whose tensors are non-contiguous views (column-sliced out of a wider '
            'matrix, every other row of a table, transposed; target = a column of a table; ragged storage as strided '
            'views) or fresh contiguous tensors, edited in place between constructing the loader and iterating it and '
            'between epochs (single entries of dense / ragged / embedding / dict features and of the target written in '
            'place, target or a feature group re-assigned; materialized frames of datasets edited by column name) - every '
            'batch must equal selecting its rows from the source as it stands when the batch is drawn; sampler= given as '
            'list / tuple / int64 or int32 tensor / numpy array / generator-backed iterable; batch_sampler= given as lists / '
            'tuples / tensors / numpy arrays / generator / ONE preallocated list refilled for every batch (equal-length '
            'consecutive batches included), the caller\'s batch lists refilled in place before the second epoch (incl. '
            'full-batch permutations); targets of every legal kind (ragged MultiNestedTensor targets of frames and of '
            'datasets with a sequence_numerical target: direct oracle only); hardening families: special values / float64 features / dict key orders of C07; a second epoch on the same '
            'loader (25%); scale (36 / 150 / 300 cases at stress level 0 / 1 / 2): frames with 17..259 / 4 099 rows (all-empty '
            'ragged rows), long cells, many columns, datasets with up to 259 / 1 027 rows, batch sizes from the ladder and '
            'around the row count, shuffled / explicit permutation samplers / explicit batch lists that are long structured '
            'index lists; heavy frames (5 / 30 / 40) where ONE batch gathers >= 16 385 / 32 769 values of a ragged feature; '
            'base: frames of C07 carrying a row-id column (0-7 rows, every storage kind) and small Datasets (1-7 rows, '
            'materialized or not, text-embedded columns through a stub embedder) x batch_size 1..n+1 / None / 0 x shuffle x '
            'drop_last x explicit samplers (arbitrary index lists incl. repeats and out-of-range entries) x explicit '
            'batch_samplers x a raising user collate_fn; the order of a shuffling sampler is recorded and fed to the '
            'model; non-trivial = at least one non-empty batch was produced; distinct = distinct case hash')
    partial_notes = (
        'torch.utils.data.BatchSampler / RandomSampler are modelled from their documentation (the sampler order is an '
        'input of the model); tied by this correspondence',
        'batch_is_selection rests on C07 (getitem_rows) for the storage kind of every feature',
        '"an unmaterialized dataset serves the same rows as materializing it first" and "a user collate_fn cannot replace '
        'the collation" are properties of DataLoader.__init__ checked on the real objects only',
        'the source frame is left unchanged: snapshot before/after on the real objects',
        'frames / datasets with a ragged (MultiNestedTensor) target are judged by the direct oracle only (the model target is '
        '1-D); == is not defined for such frames, so a batch is compared with the selection by its canonical representation',
        'in-place edits of the live source are an input history of the real objects; the model receives the frame as it '
        'stands at every epoch',
    )

    N_SCALE = {0: 36, 1: 150, 2: 300}
    N_HEAVY = {0: 5, 1: 30, 2: 40}
    N_HUGE = {0: 0, 1: 0, 2: 3}      # 16 385 .. 65 539 rows: judged by the direct oracle only

    def generate(self, rng, n, tier):
        lv = self.level
        n_ds = max(20, n // 12)
        n_heavy, n_scale = min(self.N_HEAVY[lv], n // 4), min(self.N_SCALE[lv], n // 2)
        for i in range(n):
            case = {'seed': rng.randrange(10 ** 6)}
            scaled = None
            if i < self.N_HUGE[lv]:
                scaled = 'huge'
                case['src'] = 'frame'
                case['frame'] = frame.gen_frame_scaled(rng, lv, 'rows', R=rng.choice(stress.LADDER_BIG) + rng.choice([0, 1, 2]),
                                                       rowid=True, pool='full')
                case['oracle_only'] = True
                rows = case['frame']['R']
            elif i < n_heavy:
                # one batch gathers >= 16 385 / 32 769 values of a ragged feature (rows with all-empty cells included)
                scaled = 'heavy'
                case['src'] = 'frame'
                case['frame'] = frame.gen_frame_scaled(rng, lv, 'heavy', rowid=True, pool='full')
                rows = case['frame']['R']
            elif i < n_heavy + n_scale:
                scaled = rng.choice(['rows', 'rows', 'rows', 'rows', 'longcells', 'cols', 'dataset'])
                if scaled == 'dataset':
                    case['src'] = 'dataset'
                    case['dataset'] = frame.gen_dataset(rng, stress.pick_size(rng, min(lv, 1), 1027))
                    case['materialized'] = rng.random() < .4
                    rows = case['dataset']['n']
                else:
                    case['src'] = 'frame'
                    case['frame'] = frame.gen_frame_scaled(rng, lv, scaled, rowid=True, pool='full', ragged_y=True)
                    rows = case['frame']['R']
            elif i < n_heavy + n_scale + n_ds:
                case['src'] = 'dataset'
                case['dataset'] = frame.gen_dataset(rng, seq_target=True)
                case['materialized'] = rng.random() < .4
                rows = case['dataset']['n']
            else:
                case['src'] = 'frame'
                case['frame'] = frame.gen_frame(rng, rowid=True, allow_empty=False, pool='full', ragged_y=True)
                rows = case['frame']['R']
            u = rng.random()
            weights = frame.row_weights(case['frame']) if scaled and case['src'] == 'frame' else None
            fits = lambda idx: weights is None or sum(weights[i_] for i_ in idx if 0 <= i_ < rows) <= ragged.BUDGET[lv]
            case.update(bs=rng.choice([1, 1, 2, 2, 3, 4, rows, rows + 1, max(rows - 1, 1), rng.randint(1, rows + 1)]),
                        shuffle=False, drop_last=rng.random() < .4, sampler=None, batch_sampler=None,
                        collate=rng.random() < .3, epochs=2 if rng.random() < .25 else 1)
            if scaled:
                case['scaled'] = scaled
                # batch sizes from the ladder (and around the row count): few, large batches
                case['bs'] = rng.choice([rows, rows + 1, max(rows - 1, 1), max(rows // 2, 1), max(rows // 3, 1),
                                         stress.pick_size(rng, lv, max(rows, 17)), stress.pick_size(rng, lv, max(rows, 17))])
                if scaled == 'heavy':
                    case['bs'] = rng.choice([rows, rows + 1, max(rows - 1, 1), max(rows - rows // 8, 1)])
                u = rng.choice([.1, .1, .4, .4, .4, .8, .8]) if u >= .6 else u   # shuffle / sampler / sequential only
            if u < .30:
                case['shuffle'] = True
            elif u < .46:
                case['sampler_style'] = rng.choice(SAMPLER_STYLES)
                if rows and rng.random() < .4:
                    perm = list(range(rows))
                    rng.shuffle(perm)
                    case['sampler'] = perm
                else:
                    bad = rng.random() < .12
                    k = rng.randint(0, rows + 2)
                    if rows == 0 and not bad:
                        case['sampler'] = []
                    else:
                        hi = max(rows - 1 + (2 if bad else 0), 0)
                        case['sampler'] = [rng.randint(0, hi) for _ in range(k)]
                        for _ in range(12):
                            if fits(case['sampler']):
                                break
                            case['sampler'] = [rng.randint(0, hi) for _ in range(k)]
                        else:
                            case['sampler'] = list(range(rows))
            elif u < .62:
                bs = []
                for _ in range(rng.randint(0, 4)):
                    bs.append([rng.randrange(rows) for _ in range(rng.randint(0, 3))] if rows else [])
                if rows and rng.random() < .5:
                    # batches of one common size (a hand-written mini-batch loop), or full-batch training
                    k = rng.choice([1, 2, 3, rows])
                    bs = [[rng.randrange(rows) for _ in range(k)] for _ in range(rng.randint(1, 4))]
                    if k == rows and rng.random() < .6:
                        bs = [rng.sample(range(rows), rows)]
                case['batch_style'] = rng.choice(BATCH_STYLES)
                if scaled and rows:
                    # explicit batches with long structured index lists (runs, reversed, sorted with duplicates, ...)
                    bs = []
                    for _ in range(rng.randint(1, 3)):
                        for attempt in range(200):
                            ix = ragged.gen_big_index(rng, rows, lv, allow_bad=False, max_len=rows + 2)
                            if ix['t'] == 'list' and fits([i_ % rows for i_ in ix['is']]):
                                break
                        else:
                            ix = {'is': list(range(rows - 1, -1, -1))}
                        bs.append([i_ % rows for i_ in ix['is']])
                case['batch_sampler'] = bs
                if case['batch_style'] in ('lists', 'reused-buffer') and rng.random() < .5:
                    # the caller refills / reshuffles the SAME list objects in place before the next epoch
                    case['epochs'] = 2
                    case['batches2'] = [rng.sample(b, len(b)) if rng.random() < .5 else [rng.randrange(rows) for _ in b]
                                        for b in bs]
            elif u < .68:
                case['bs'] = None
                if rng.random() < .3:
                    case['drop_last'] = True   # rejected by PyTorch
                else:
                    case['drop_last'] = False
            elif u < .72:
                case['bs'] = 0
            # the source is a live object: strided storage (column-sliced / transposed / every-other-row views) and
            # in-place edits between constructing the loader and iterating it, and between epochs
            if case['src'] == 'frame' and scaled in (None, 'rows', 'longcells') and rows <= 300:
                if rng.random() < .3:
                    case['storage'] = rng.randrange(10 ** 6)
                if rng.random() < .3:
                    if rng.random() < .5:
                        case['epochs'] = 2
                    case['edits'] = frame.gen_edits(rng, case['frame'], case['epochs'])
                    if 'storage' not in case and rng.random() < .5:
                        case['storage'] = rng.randrange(10 ** 6)
            elif case['src'] == 'dataset' and rows <= 300 and rng.random() < .3:
                if rng.random() < .5:
                    case['epochs'] = 2
                case['edits'] = self.gen_raw_edits(rng, case['dataset'], case['epochs'])
            if case['src'] == 'frame' and not frame.model_expressible(case['frame']) or \
                    case['src'] == 'dataset' and frame.dataset_ragged_target(case['dataset']):
                case['oracle_only'] = True        # ragged target: the model's target is a 1-D tensor
            yield case

    @staticmethod
    def gen_raw_edits(rng, dspec, epochs):
        """in-place edits of the materialized frame of a dataset (dense numerical / categorical entries, the target),
        addressed by column name"""
        edits = []
        cols = [c for c in dspec['cols'] if c['stype'] in ('numerical', 'categorical') and c['name'] not in ('row_id', dspec['target'])]
        tgt = [c for c in dspec['cols'] if c['name'] == dspec['target'] and c['stype'] in ('numerical', 'categorical')]
        for when in range(epochs):
            if rng.random() > .8:
                continue
            for _ in range(rng.randint(1, 3)):
                if cols and rng.random() < .6:
                    c = rng.choice(cols)
                    edits.append({'kind': 'raw', 's': c['stype'], 'col': c['name'], 'r': rng.randrange(dspec['n']),
                                  'v': rng.randint(0, 9), 'when': when})
                elif tgt:
                    edits.append({'kind': 'raw-y', 'r': rng.randrange(dspec['n']), 'v': rng.randint(0, 2), 'when': when})
        return edits

    @staticmethod
    def apply_raw(tf, e):
        from torch_frame import stype
        if e['kind'] == 'raw-y':
            tf.y[e['r']] = e['v']
        else:
            st = stype(e['s'])
            tf.feat_dict[st][e['r'], tf.col_names_dict[st].index(e['col'])] = e['v']

    @staticmethod
    def epoch_batches(case, ep):
        if case['batch_sampler'] is None:
            return None
        return case['batches2'] if ep >= 1 and case.get('batches2') is not None else case['batch_sampler']

    # -- real side -----------------------------------------------------------------------------------
    def source(self, case):
        """(object handed to DataLoader, the frame the rows must come from, reference of that frame or None)"""
        if case['src'] == 'frame':
            tf = frame.build_real(case['frame'], case.get('storage'))
            return tf, tf, frame.ref_of_spec(case['frame'])
        ds = frame.build_dataset(case['dataset'])
        mat = frame.build_dataset(case['dataset']).materialize().tensor_frame
        if case['materialized']:
            ds.materialize()
        return ds, mat, None

    @staticmethod
    def row_ids(tf):
        from torch_frame import stype
        names = tf.col_names_dict[stype.numerical]
        j = [k for k, nm in enumerate(names) if nm.endswith('row_id')][0]
        return [int(x) for x in tf.feat_dict[stype.numerical][:, j].tolist()]

    def real(self, case):
        self._findings = []
        out = self._real(case)
        self.remember(case, self._findings)
        return out

    def _real(self, case):
        F = self._findings
        src, mat, ref = self.source(case)
        n = len(mat)
        before = frame.frame_repr(mat)
        kw = {}
        objs = None
        if case['batch_sampler'] is not None:
            objs = [list(b) for b in case['batch_sampler']]
            kw['batch_sampler'] = styled_batches(objs, case.get('batch_style'))
        else:
            kw.update(batch_size=case['bs'], drop_last=case['drop_last'])
            if case['sampler'] is not None:
                kw['sampler'] = styled_sampler(case['sampler'], case.get('sampler_style'))
            else:
                kw['shuffle'] = case['shuffle']
                if case['shuffle']:
                    kw['generator'] = torch.Generator().manual_seed(case['seed'])
        if case['collate']:
            kw['collate_fn'] = _raising_collate
        try:
            loader = DataLoader(src, **kw)
        except Exception:
            if case['collate']:
                kw2 = {k: v for k, v in kw.items() if k != 'collate_fn'}
                try:
                    DataLoader(src, **kw2)
                    F.append(('loader/collate', 'a user-supplied collate_fn changes what the loader does', None, None))
                except Exception:
                    pass
            return 'raises'
        rec = None
        if loader.batch_sampler is not None and case['batch_sampler'] is None:
            rec = Recorder(loader.batch_sampler.sampler)
            loader.batch_sampler.sampler = rec
        if not hasattr(self, '_orders'):
            self._orders = {}
        orders = self._orders[core.stable_hash(case)] = []
        out = {}
        # history on one object: a second epoch of the SAME loader is judged like the first one
        cur_spec = case['frame'] if case['src'] == 'frame' else None
        for ep in range(case.get('epochs', 1)):
            if rec is not None:
                rec.seen = []
            # the live source is edited in place after the loader was constructed / between epochs
            for e in case.get('edits') or []:
                if e['when'] != ep:
                    continue
                if case['src'] == 'frame':
                    frame.apply_edit(mat, cur_spec, e, case.get('storage'))
                    cur_spec = frame.edit_spec(cur_spec, e)
                    ref = frame.ref_of_spec(cur_spec)
                else:
                    self.apply_raw(src.tensor_frame, e)
                    self.apply_raw(mat, e)
                before = frame.frame_repr(mat)
            if ep >= 1 and case.get('batches2') is not None:
                for lst, new in zip(objs, case['batches2']):
                    lst[:] = new          # the caller's list objects, refilled in place
            try:
                batches = list(loader)
            except Exception as e:
                if rec is not None and case['shuffle']:
                    orders.append(list(rec.seen))
                if case['collate'] and 'user collate_fn' in str(e):
                    F.append(('loader/collate', 'the user-supplied collate_fn replaced the row-selection collation', None, None))
                return 'collate-raises'
            if case['batch_sampler'] is not None:
                order = [i for b in self.epoch_batches(case, ep) for i in b]
            elif rec is not None:
                order = list(rec.seen)
            else:
                order = list(case['sampler']) if case['sampler'] is not None else list(range(n))
            # the draw of a shuffling sampler is an input of the model: remember it for the model request of this case
            orders.append(list(order))
            ids = [self.row_ids(b) for b in batches]
            out['ok' if ep == 0 else 'ok2'] = {'batches': ids, 'frames': [frame.frame_repr(b) for b in batches]}
            self.judge_epoch(case, loader, mat, ref, n, order, batches, ids, self.epoch_batches(case, ep))
        if frame.frame_repr(mat) != before:
            F.append(('loader/mutates', 'iterating the loader modified the source frame', None, None))
        return out

    def judge_epoch(self, case, loader, mat, ref, n, order, batches, ids, given=None):
        """direct oracle on the property text for one epoch"""
        F = self._findings
        bs, dl = case['bs'], case['drop_last']
        flat = [i for b in ids for i in b]
        if case['batch_sampler'] is not None:
            if ids != [list(b) for b in given]:
                F.append(('loader/batch-sampler', 'batches differ from the explicit batch sampler', None, None))
        else:
            if case['sampler'] is None:
                if case['shuffle']:
                    if sorted(order) != list(range(n)):
                        F.append(('loader/perm', 'the shuffled order is not a permutation of the rows', None, order[:50]))
                elif order != list(range(n)):
                    F.append(('loader/order', 'without shuffling the rows are not served in order', None, order[:50]))
            if bs is None:
                keep = len(order)
                sizes_ok = all(len(b) == 1 for b in ids)
            else:
                keep = (len(order) // bs) * bs if dl else len(order)
                sizes_ok = all(len(b) == bs for b in ids[:-1]) and (not ids or (1 <= len(ids[-1]) <= bs)) \
                    and (not dl or all(len(b) == bs for b in ids))
                if len(ids) != (len(order) // bs if dl else -(-len(order) // bs)):
                    sizes_ok = False
            if flat != order[:keep]:
                F.append(('loader/coverage', 'the batches do not contain exactly the rows of the epoch, once each, in '
                          'sampler order', order[:keep][:50], flat[:50]))
            elif not sizes_ok:
                F.append(('loader/sizes', 'batch sizes are not batch_size with a smaller / dropped last batch', bs,
                          [len(b) for b in ids][:50]))
            try:
                if len(loader) != len(ids):
                    F.append(('loader/len', 'len(loader) differs from the number of batches', len(loader), len(ids)))
            except TypeError:
                pass
        for b, bid in zip(batches, ids):
            sel = mat[list(bid)] if bid else mat[[]]
            if isinstance(sel.y, frame.MNT) or isinstance(b.y, frame.MNT):
                # == is not defined for a ragged target: the batch must be the same frame as the selection
                same = frame.frame_repr(b) == frame.frame_repr(sel)
            else:
                try:
                    same = bool(b == sel) or self._nan_y(b)
                except Exception:
                    same = False          # e.g. the batch's target has another dtype than the source's
            fam, note = '', ''
            if case.get('edits'):
                fam, note = '/source-edited-in-place', ' (as it stands when the batch is drawn: the source was edited ' \
                    'in place after the loader was constructed / between epochs)'
            elif case.get('batch_style') == 'reused-buffer' or case.get('batches2') is not None:
                fam, note = '/index-object-reused', ' (the batch sampler hands over the same list object again with other contents)'
            if not same:
                F.append(('loader/batch' + fam, 'a batch is not equal to selecting its rows from the source frame' + note,
                          None, bid[:50]))
                break
            if ref is not None:
                bad = frame.compare_to_ref(b, frame.ref_select(ref, {'t': 'list', 'is': list(bid)}))
                if bad is not None:
                    F.append(('loader/batch' + fam, f'a batch differs from the nested-list rows{note}: {bad}', None, bid[:50]))
                    break

    @staticmethod
    def _nan_y(tf):
        return tf.y is not None and not isinstance(tf.y, frame.MNT) and tf.y.is_floating_point() and bool(torch.isnan(tf.y).any())

    # -- model side ----------------------------------------------------------------------------------
    def model_requests(self, case):
        if case.get('oracle_only'):
            return []
        orders = getattr(self, '_orders', {}).get(core.stable_hash(case)) or []
        edits = case.get('edits') or []
        if case['src'] == 'frame':
            frs = [frame.model_frame(frame.spec_at(case['frame'], edits, ep)) if ep == 0 or any(e['when'] == ep for e in edits)
                   else None for ep in range(max(len(orders), 1))]
            n = case['frame']['R']
        else:
            twin = frame.build_dataset(case['dataset']).materialize().tensor_frame
            frs = []
            for ep in range(max(len(orders), 1)):
                for e in edits:
                    if e['when'] == ep:
                        self.apply_raw(twin, e)
                frs.append(frame.frame_repr(twin) if ep == 0 or any(e['when'] == ep for e in edits) else None)
            n = case['dataset']['n']
        for ep in range(1, len(frs)):
            if frs[ep] is None:
                frs[ep] = frs[ep - 1]
        dflt = list(case['sampler']) if case['sampler'] is not None else list(range(n))
        reqs = []
        for ep in range(max(len(orders), 1)):
            rq = {'cmd': 'epoch', 'order': orders[ep] if ep < len(orders) else dflt, 'bs': case['bs'],
                  'drop_last': case['drop_last'], 'batches': self.epoch_batches(case, ep),
                  'shuffle': bool(case['shuffle'] and case['sampler'] is None and case['batch_sampler'] is None)}
            rq['frame'] = frs[ep]
            reqs.append(rq)
        return reqs

    def model_outcome(self, case, replies):
        if case.get('oracle_only'):
            return core.SKIP_MODEL
        if len(replies) == 1 or not isinstance(replies[0], dict):
            return replies[0]
        out = {'ok': replies[0]['ok']}
        if not isinstance(replies[1], dict):
            return replies[1]
        out['ok2'] = replies[1]['ok']
        return out

    def oracle(self, case, real_outcome):
        findings = self.recall(case)
        if findings:
            key, what, exp, got = findings[0]
            return core.Violation(key, what, case, exp, got)
        return None

    def nontrivial_key(self, case, out):
        if isinstance(out, dict) and any(out['ok']['batches']):
            return core.stable_hash(case)
        return None

    def classify(self, case, out):
        n = case['frame']['R'] if case['src'] == 'frame' else case['dataset']['n']
        bk = lambda x: str(x) if x <= 7 else '8..16' if x <= 16 else '17..256' if x <= 256 else '257..1024' if x <= 1024 else '1025+'
        bs = case['bs']
        labs = [f"src:{case['src']}" + (f":materialized={case['materialized']}" if case['src'] == 'dataset' else ''),
                f'rows:{bk(n)}', f"batch_size:{'none' if bs is None else 'n+1' if bs == n + 1 else 'n' if bs == n else bs if bs <= 4 else '5..16' if bs <= 16 else bk(bs)}",
                f"drop_last:{case['drop_last']}", f"collate_override:{case['collate']}"]
        mode = 'batch_sampler' if case['batch_sampler'] is not None else 'sampler' if case['sampler'] is not None \
            else 'shuffle' if case['shuffle'] else 'sequential'
        labs.append(f"mode:{mode}:{out if isinstance(out, str) else 'ok'}")
        if case.get('scaled'):
            labs.append(f"scale:{case['scaled']}:{mode}")
        if case.get('storage') is not None:
            labs.append('storage:strided-views')
        for e in case.get('edits') or []:
            labs.append(f"source-edited:{e['kind']}:{'after-construction' if e['when'] == 0 else 'between-epochs'}"
                        + (':strided' if case.get('storage') is not None else ':contiguous'))
        if case.get('sampler_style') and case['sampler'] is not None:
            labs.append(f"sampler-container:{case['sampler_style']}")
        if case['batch_sampler'] is not None:
            labs.append(f"batch-sampler-container:{case.get('batch_style', 'lists')}")
            if case.get('batches2') is not None:
                labs.append('batch-lists-refilled-in-place-between-epochs')
            lens = [len(b) for b in case['batch_sampler']]
            if case.get('batch_style') == 'reused-buffer' and any(a == b and a for a, b in zip(lens, lens[1:])):
                labs.append('reused-buffer:consecutive-batches-of-equal-length')
        if case.get('oracle_only') and not case.get('scaled') == 'huge':
            labs.append('target:ragged(oracle-only)')
        if n >= 257:
            labs.append('scale:rows>=257' if n < 1025 else 'scale:rows>=1025' if n < 16385 else 'scale:rows>=16385(oracle-only)')
        if isinstance(out, dict):
            ids = out['ok']['batches']
            labs.append(f'batches:{min(len(ids), 6)}')
            if 'ok2' in out:
                labs.append('history:second-epoch-on-the-same-loader')
            mx = max([len(b) for b in ids] or [0])
            if mx >= 65:
                labs.append('scale:batch>=1025' if mx >= 1025 else 'scale:batch>=257' if mx >= 257 else 'scale:batch>=65')
            if mx >= 65 and mode in ('shuffle', 'sampler', 'batch_sampler'):
                labs.append('scale:large-batch-in-non-sequential-order')
            if ids and bs and len(ids[-1]) < bs and case['batch_sampler'] is None:
                labs.append('short-last-batch')
            if case['drop_last'] and bs and case['batch_sampler'] is None and n % bs:
                labs.append('dropped-last-batch')
            nv = max([len(m['values']) for fr in out['ok']['frames'] for _, f in fr.get('feats', []) for m in
                      ([f] if f['k'] == 'mnt' else [mm for _, mm in f['d']] if f['k'] == 'dict' else [])
                      if m['values'] != 'bad-ndim'] or [0])
            if nv >= 16385:
                labs.append('scale:batch-gathers-values>=32769' if nv >= 32769 else 'scale:batch-gathers-values>=16385')
        if case['src'] == 'frame':
            labs += [f"kind:{ft['kind']}" for ft in case['frame']['feats']]
            if any(ft['payload'] == 'float64' for ft in case['frame']['feats']):
                labs.append('dtype:float64-feature')
        return labs

    def extra_checks(self, rng, tier, report):
        """exhaustive box: every (rows n, batch_size 1..n+1, drop_last) without shuffling, plus every rotation of the
        rows as an explicit sampler, on a frame holding every storage kind"""
        N = 9 if tier == 'thorough' else 6
        cases = []
        for n in range(0, N + 1):
            spec = frame.fixed_frame(rng, n, ('numerical', 'timestamp', 'multicategorical', 'embedding', 'text_tokenized'),
                                     rowid=True)
            for bs in range(1, n + 2):
                for dl in (False, True):
                    base = {'seed': 0, 'src': 'frame', 'frame': spec, 'bs': bs, 'shuffle': False, 'drop_last': dl,
                            'sampler': None, 'batch_sampler': None, 'collate': False}
                    cases.append(base)
                    if n:
                        k = (bs * 7 + n) % n
                        cases.append(dict(base, sampler=list(range(k, n)) + list(range(k))))
        frame.run_box(self, cases, report, 'batch_box', {'rows': f'0..{N}', 'batch_size': '1..n+1', 'drop_last': 'both'})


CHECK = C10()

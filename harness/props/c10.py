"""C10 - a data-loader epoch is an exact partition of the rows."""
import torch

from torch_frame.data import DataLoader

from harness import core, frame, ragged


class Recorder:
    """wraps the loader's index sampler and records the order it hands to the batch sampler"""

    def __init__(self, inner):
        self.inner, self.seen = inner, []

    def __iter__(self):
        for i in self.inner:
            self.seen.append(int(i))
            yield i

    def __len__(self):
        return len(self.inner)


def _raising_collate(batch):
    raise RuntimeError('user collate_fn must never be called')


class C10(frame.Findings, core.Check):
    pid = 'C10'
    title = 'A data-loader epoch is an exact partition of the rows'
    driver = 'drv_c07'
    quick_cases = 3000
    thorough_cases = 24000
    rule = ('frames of C07 carrying a row-id column (0-7 rows, every storage kind) and small Datasets (1-7 rows, '
            'materialized or not, text-embedded columns through a stub embedder) x batch_size 1..n+1 / None / 0 x shuffle x '
            'drop_last x explicit samplers (arbitrary index lists incl. repeats and out-of-range entries) x explicit '
            'batch_samplers x a raising user collate_fn; the order of a shuffling sampler is recorded and fed to the '
            'model; non-trivial = at least one non-empty batch was produced; distinct = distinct case hash')
    partial_notes = (
        'torch.utils.data.BatchSampler / RandomSampler are modelled from their documentation (the sampler order is an '
        'input of the model); tied by this correspondence',
        'batch_is_selection rests on C07 (getitem_rows) for the storage kind of every feature',
        '"an unmaterialized dataset serves the same rows as materializing it first" and "a user collate_fn cannot replace '
        'the collation" are properties of DataLoader.__init__ checked on the real objects only',
        'the source frame is left unchanged: snapshot before/after on the real objects',
    )

    def generate(self, rng, n, tier):
        n_ds = max(20, n // 12)
        for i in range(n):
            case = {'seed': rng.randrange(10 ** 6)}
            if i < n_ds:
                case['src'] = 'dataset'
                case['dataset'] = frame.gen_dataset(rng)
                case['materialized'] = rng.random() < .4
                rows = case['dataset']['n']
            else:
                case['src'] = 'frame'
                case['frame'] = frame.gen_frame(rng, rowid=True, allow_empty=False)
                rows = case['frame']['R']
            u = rng.random()
            case.update(bs=rng.choice([1, 1, 2, 2, 3, 4, rows, rows + 1, max(rows - 1, 1), rng.randint(1, rows + 1)]),
                        shuffle=False, drop_last=rng.random() < .4, sampler=None, batch_sampler=None,
                        collate=rng.random() < .3)
            if u < .33:
                case['shuffle'] = True
            elif u < .5:
                if rows and rng.random() < .4:
                    perm = list(range(rows))
                    rng.shuffle(perm)
                    case['sampler'] = perm
                else:
                    bad = rng.random() < .12
                    k = rng.randint(0, rows + 2)
                    if rows == 0 and not bad:
                        case['sampler'] = []
                    else:
                        hi = max(rows - 1 + (2 if bad else 0), 0)
                        case['sampler'] = [rng.randint(0, hi) for _ in range(k)]
            elif u < .6:
                bs = []
                for _ in range(rng.randint(0, 4)):
                    bs.append([rng.randrange(rows) for _ in range(rng.randint(0, 3))] if rows else [])
                case['batch_sampler'] = bs
            elif u < .68:
                case['bs'] = None
                if rng.random() < .3:
                    case['drop_last'] = True   # rejected by PyTorch
                else:
                    case['drop_last'] = False
            elif u < .72:
                case['bs'] = 0
            yield case

    # -- real side -----------------------------------------------------------------------------------
    def source(self, case):
        """(object handed to DataLoader, the frame the rows must come from, reference of that frame or None)"""
        if case['src'] == 'frame':
            tf = frame.build_real(case['frame'])
            return tf, tf, frame.ref_of_spec(case['frame'])
        ds = frame.build_dataset(case['dataset'])
        mat = frame.build_dataset(case['dataset']).materialize().tensor_frame
        if case['materialized']:
            ds.materialize()
        return ds, mat, None

    @staticmethod
    def row_ids(tf):
        from torch_frame import stype
        names = tf.col_names_dict[stype.numerical]
        j = [k for k, nm in enumerate(names) if nm.endswith('row_id')][0]
        return [int(x) for x in tf.feat_dict[stype.numerical][:, j].tolist()]

    def real(self, case):
        self._findings = []
        out = self._real(case)
        self.remember(case, self._findings)
        return out

    def _real(self, case):
        F = self._findings
        src, mat, ref = self.source(case)
        n = len(mat)
        before = frame.frame_repr(mat)
        kw = {}
        if case['batch_sampler'] is not None:
            kw['batch_sampler'] = [list(b) for b in case['batch_sampler']]
        else:
            kw.update(batch_size=case['bs'], drop_last=case['drop_last'])
            if case['sampler'] is not None:
                kw['sampler'] = list(case['sampler'])
            else:
                kw['shuffle'] = case['shuffle']
                if case['shuffle']:
                    kw['generator'] = torch.Generator().manual_seed(case['seed'])
        if case['collate']:
            kw['collate_fn'] = _raising_collate
        try:
            loader = DataLoader(src, **kw)
        except Exception:
            if case['collate']:
                kw2 = {k: v for k, v in kw.items() if k != 'collate_fn'}
                try:
                    DataLoader(src, **kw2)
                    F.append(('loader/collate', 'a user-supplied collate_fn changes what the loader does', None, None))
                except Exception:
                    pass
            return 'raises'
        rec = None
        if loader.batch_sampler is not None and case['batch_sampler'] is None:
            rec = Recorder(loader.batch_sampler.sampler)
            loader.batch_sampler.sampler = rec
        try:
            batches = list(loader)
        except Exception as e:
            if rec is not None and case['shuffle']:
                if not hasattr(self, '_orders'):
                    self._orders = {}
                self._orders[core.stable_hash(case)] = list(rec.seen)
            if case['collate'] and 'user collate_fn' in str(e):
                F.append(('loader/collate', 'the user-supplied collate_fn replaced the row-selection collation', None, None))
            return 'collate-raises'
        if case['batch_sampler'] is not None:
            order = [i for b in case['batch_sampler'] for i in b]
        elif rec is not None:
            order = rec.seen
        else:
            order = list(case['sampler']) if case['sampler'] is not None else list(range(n))
        # the draw of a shuffling sampler is an input of the model: remember it for the model request of this case
        if not hasattr(self, '_orders'):
            self._orders = {}
        self._orders[core.stable_hash(case)] = list(order)
        ids = [self.row_ids(b) for b in batches]
        out = {'ok': {'batches': ids, 'frames': [frame.frame_repr(b) for b in batches]}}
        # ---- direct oracle on the property text
        bs, dl = case['bs'], case['drop_last']
        flat = [i for b in ids for i in b]
        if case['batch_sampler'] is not None:
            if ids != [list(b) for b in case['batch_sampler']]:
                F.append(('loader/batch-sampler', 'batches differ from the explicit batch sampler', case['batch_sampler'], ids))
        else:
            if case['sampler'] is None:
                if case['shuffle']:
                    if sorted(order) != list(range(n)):
                        F.append(('loader/perm', 'the shuffled order is not a permutation of the rows', None, order))
                elif order != list(range(n)):
                    F.append(('loader/order', 'without shuffling the rows are not served in order', None, order))
            if bs is None:
                keep = len(order)
                sizes_ok = all(len(b) == 1 for b in ids)
            else:
                keep = (len(order) // bs) * bs if dl else len(order)
                sizes_ok = all(len(b) == bs for b in ids[:-1]) and (not ids or (1 <= len(ids[-1]) <= bs)) \
                    and (not dl or all(len(b) == bs for b in ids))
                if len(ids) != (len(order) // bs if dl else -(-len(order) // bs)):
                    sizes_ok = False
            if flat != order[:keep]:
                F.append(('loader/coverage', 'the batches do not contain exactly the rows of the epoch, once each, in '
                          'sampler order', order[:keep], flat))
            elif not sizes_ok:
                F.append(('loader/sizes', 'batch sizes are not batch_size with a smaller / dropped last batch', bs,
                          [len(b) for b in ids]))
            try:
                if len(loader) != len(ids):
                    F.append(('loader/len', 'len(loader) differs from the number of batches', len(loader), len(ids)))
            except TypeError:
                pass
        for b, bid in zip(batches, ids):
            sel = mat[list(bid)] if bid else mat[[]]
            if not (b == sel) and not self._nan_y(b):
                F.append(('loader/batch', 'a batch is not equal to selecting its rows from the source frame', None, bid))
                break
            if ref is not None:
                bad = frame.compare_to_ref(b, frame.ref_select(ref, {'t': 'list', 'is': list(bid)}))
                if bad is not None:
                    F.append(('loader/batch', f'a batch differs from the nested-list rows: {bad}', None, bid))
                    break
        if frame.frame_repr(mat) != before:
            F.append(('loader/mutates', 'iterating the loader modified the source frame', None, None))
        return out

    @staticmethod
    def _nan_y(tf):
        return tf.y is not None and tf.y.is_floating_point() and bool(torch.isnan(tf.y).any())

    # -- model side ----------------------------------------------------------------------------------
    def model_requests(self, case):
        if case['src'] == 'frame':
            fr = frame.model_frame(case['frame'])
            n = case['frame']['R']
        else:
            fr = frame.frame_repr(frame.build_dataset(case['dataset']).materialize().tensor_frame)
            n = case['dataset']['n']
        order = getattr(self, '_orders', {}).get(core.stable_hash(case))
        if order is None:
            order = list(case['sampler']) if case['sampler'] is not None else list(range(n))
        return [{'cmd': 'epoch', 'frame': fr, 'order': order, 'bs': case['bs'], 'drop_last': case['drop_last'],
                 'batches': case['batch_sampler'],
                 'shuffle': bool(case['shuffle'] and case['sampler'] is None and case['batch_sampler'] is None)}]

    def model_outcome(self, case, replies):
        return replies[0]

    def oracle(self, case, real_outcome):
        findings = self.recall(case)
        if findings:
            key, what, exp, got = findings[0]
            return core.Violation(key, what, case, exp, got)
        return None

    def nontrivial_key(self, case, out):
        if isinstance(out, dict) and any(out['ok']['batches']):
            return core.stable_hash(case)
        return None

    def classify(self, case, out):
        n = case['frame']['R'] if case['src'] == 'frame' else case['dataset']['n']
        labs = [f"src:{case['src']}" + (f":materialized={case['materialized']}" if case['src'] == 'dataset' else ''),
                f'rows:{n}', f"batch_size:{'none' if case['bs'] is None else 'n+1' if case['bs'] == n + 1 else 'n' if case['bs'] == n else case['bs'] if case['bs'] <= 4 else '5..'}",
                f"drop_last:{case['drop_last']}", f"collate_override:{case['collate']}"]
        mode = 'batch_sampler' if case['batch_sampler'] is not None else 'sampler' if case['sampler'] is not None \
            else 'shuffle' if case['shuffle'] else 'sequential'
        labs.append(f"mode:{mode}:{out if isinstance(out, str) else 'ok'}")
        if isinstance(out, dict):
            ids = out['ok']['batches']
            labs.append(f'batches:{min(len(ids), 6)}')
            if ids and case['bs'] and len(ids[-1]) < case['bs'] and case['batch_sampler'] is None:
                labs.append('short-last-batch')
            if case['drop_last'] and case['bs'] and case['batch_sampler'] is None and n % case['bs']:
                labs.append('dropped-last-batch')
        if case['src'] == 'frame':
            labs += [f"kind:{ft['kind']}" for ft in case['frame']['feats']]
        return labs

    def extra_checks(self, rng, tier, report):
        """exhaustive box: every (rows n, batch_size 1..n+1, drop_last) without shuffling, plus every rotation of the
        rows as an explicit sampler, on a frame holding every storage kind"""
        N = 9 if tier == 'thorough' else 6
        cases = []
        for n in range(0, N + 1):
            spec = frame.fixed_frame(rng, n, ('numerical', 'timestamp', 'multicategorical', 'embedding', 'text_tokenized'),
                                     rowid=True)
            for bs in range(1, n + 2):
                for dl in (False, True):
                    base = {'seed': 0, 'src': 'frame', 'frame': spec, 'bs': bs, 'shuffle': False, 'drop_last': dl,
                            'sampler': None, 'batch_sampler': None, 'collate': False}
                    cases.append(base)
                    if n:
                        k = (bs * 7 + n) % n
                        cases.append(dict(base, sampler=list(range(k, n)) + list(range(k))))
        frame.run_box(self, cases, report, 'batch_box', {'rows': f'0..{N}', 'batch_size': '1..n+1', 'drop_last': 'both'})


CHECK = C10()

"""C09 - Dataset row subsets, shuffles and train/val/test splits select exactly the requested rows for every
history; the random split generator `torch_frame.utils.split.generate_random_split`."""
import itertools
from fractions import Fraction

from harness import core
from harness import dataset_gen as G


class C09(core.Check):
    pid = 'C09'
    driver = 'drv_c09'
    quick_cases = 3000
    thorough_cases = 45000
    rule = ('3 of 4 cases are histories: a pandas DataFrame (0-12 rows, and a few percent with a length from the size '
            'ladder of harness/stress.py: 17..259 at level 0, ..4099 at level 1, ..65539 at level 2; every column an '
            'injective function of a hidden row id; 30% of the frames take 2-5 column names, the target and the split '
            'column from a family of names that are substrings / prefixes / suffixes / case variants of each other or '
            'sentinel look-alikes, a few frames have 17..259 (level 2: ..1027) columns stem0, stem1, ...; 15 index labelings incl. offset / permuted / negative / string / float / > 2^53 / '
            'datetime / sentinel-like strings / duplicate labels made by set_index, concat and iloc; 10 split-assignment '
            'patterns incl. empty splits; 11 split-column dtypes incl. nullable Int64 and categorical) -> Dataset -> '
            'optional pre-materialization prefix (col_select with a single string or a list, legal / unknown look-alike '
            'names, illegal calls) -> materialize -> up to 8 (0.6% of the histories: 17..35) operations from '
            '{index_select / __getitem__ with int, list, range, int64/int32 tensor, bool mask (tensor or list), int '
            'slice, slice with float bounds and steps - every combination of None / int / float bounds with step None / 1 / 2 / 3 / 5 / '
            '~n/2 / > n; index arguments of ladder length incl. longer than the dataset; '
            'the same index object passed again; shuffle (seeded torch RNG, return_perm on every other call); get_split; '
            'split(); split() and the three get_split() on the same dataset in any order; tensor_frame; materialize '
            'again; col_select (illegal)} each applied to ANY previously derived dataset; about 8% of the indices are '
            'deliberately illegal. 1 of 4 cases is a generate_random_split call (length 0..120 quick / 0..300 thorough '
            'plus ladder lengths, ratios from decimal / dyadic / thirds / random doubles / non-positive / >= 1, 12% pairs of decimal '
            'literals on a 0.1 / 0.05 / 0.01 / 0.001 grid whose decimal sum is exactly 1 or misses it by one grid step, '
            'include_test on and off, seed < 2^32) run twice under different prior states of the global numpy '
            'generator. Frames or index arguments above 20000 rows are judged by the direct oracle only. A history is '
            'non-trivial when at least one derived dataset has >= 1 row; a generator case when it returns >= 2 entries. '
            'distinct = distinct case hash.')
    partial_notes = (
        '"derived datasets never alter the dataset they came from" is proved for the functional model '
        '(parents_unchanged) and checked on the real objects: every existing dataset is re-observed after every call',
        'float slice bounds / split ratios: the model works with the exact rational whose nearest double the code '
        'receives; draws on which the float product (or float sum of the ratios) and the exact one fall on different '
        'sides of a rounding / floor / comparison boundary are not generated (counted as float-boundary-skipped)',
        'numpy\'s shuffle and torch.randperm are inputs of the model: the permutation drawn for (seed, n) is '
        'recomputed by the harness and passed to the model; theorems hold for every permutation',
        'a dataset without any feature column (col_select of the target only) is modelled as "materialize raises", '
        'which is what the code does when a target exists and the frame has rows; other featureless frames are not generated',
        'scale: the list-based Lean model gathers in O(rows x index length); frames or index arguments above 20000 rows '
        '(ladder rungs 32769 and 65537, thorough tier only) are judged by the direct Python-list oracle only '
        '(oracle_only_cases); everything up to 16385+2 rows is compared with the model',
        'index tensors are generated with dtype int64 / int32 / bool; int16 / int8 / float tensors are rejected by torch, '
        'and a uint8 tensor (deprecated mask semantics in torch, positions in pandas) is probed and logged under '
        'observed_outside_generated_domain, not generated',
    )
    assumptions = ('pandas `iloc`, dense-tensor indexing and `numpy.nonzero` are modelled by Python-list position '
                   'semantics (TFVerif/Model/Py.lean, shared with C05/C07)',)

    def __init__(self):
        self._stats = {}
        self._findings = []

    # ------------------------------------------------------------------ generation
    def generate(self, rng, n, tier):
        nmax = 300 if tier == 'thorough' else 120
        lvl = self.level
        for i in range(n):
            if i % 4 == 3:
                yield G.gen_split_case(rng, self._stats, nmax, lvl)
            else:
                yield G.gen_history(rng, self._stats, lvl)

    @staticmethod
    def _too_big_for_model(case):
        """the list-based Lean model gathers in O(rows x index length): the largest rungs of the size ladder are
        judged by the direct oracle only (counted as oracle_only_cases)"""
        if case['n'] > G.MODEL_MAX:
            return True
        if case['kind'] == 'hist':
            return any(len(op['ix'].get('is', ())) > G.MODEL_MAX for op in case['ops'] if op['op'] == 'select')
        return False

    # ------------------------------------------------------------------ real code
    def real(self, case):
        if case['kind'] == 'hist':
            out, self._findings = G.run_real_history(case)
        else:
            out, self._findings = G.run_real_split(case)
        return out

    # ------------------------------------------------------------------ model
    def model_requests(self, case):
        if self._too_big_for_model(case):
            return []
        if case['kind'] == 'gen':
            return [{'cmd': 'gen', 'n': case['n'], 'seed': case['seed'], 'rt': case['rt'], 'rv': case['rv'],
                     'it': case['it'], 'perm': G.numpy_perm(case['seed'], case['n'])}]
        codes = G.label_codes(case['labels'])
        ops = []
        for op in case['ops']:
            k = op['op']
            o = {'op': k, 'src': op['src']}
            if k == 'select':
                o['ix'] = G.model_index(op['ix'])
            elif k == 'shuffle':
                o['perm'] = op['perm']
            elif k == 'get_split':
                o['name'] = op['name']
            elif k == 'col_select':
                o['cols'] = op['cols']
            ops.append(o)
        return [{'cmd': 'hist', 'rows': [[i, codes[i], case['split'][i]] for i in range(case['n'])],
                 'cols': case['cols'], 'target': case['target'], 'split_col': case['ctor'] != 'no_split_col',
                 'ops': ops}]

    def model_outcome(self, case, replies):
        if not replies:
            return core.SKIP_MODEL
        rep = replies[0]
        if case['kind'] == 'gen':
            return rep
        if rep.get('ctor') != 'ok':
            return {'ctor': 'raises'}
        steps = []
        for op, o in zip(case['ops'], rep['steps']):
            if isinstance(o, dict) and op['op'] == 'shuffle':
                o = dict(o)
                o['perm'] = list(op['perm'])
            steps.append(o)
        return {'ctor': 'ok', 'steps': steps}

    # ------------------------------------------------------------------ direct oracle (independent of Lean)
    def oracle(self, case, real_outcome):
        if self._findings:
            k, what, exp, got = self._findings[0]
            if case['kind'] == 'hist':
                op = case['ops'][k]['op'] if 0 <= k < len(case['ops']) else 'construct'
                tag = 'existing-dataset-altered' if 'altered the existing dataset' in what else what[:60]
                key = f'hist/{op}/{tag}'
            else:
                key = f'gen/{what[:60]}'
            return core.Violation(key, what, case, exp, got)
        if case['kind'] == 'gen':
            return self._oracle_gen(case, real_outcome)
        v = self._oracle_split_vs_get_split(case, real_outcome)
        if v is not None:
            return v
        ref = G.ref_run(case)
        if ref == real_outcome:
            return None
        if ref.get('ctor') != real_outcome.get('ctor'):
            return core.Violation('hist/construct/split-column-validation',
                                  'the constructor accepts / rejects the split column against its specification',
                                  case, ref, real_outcome)
        for k, (a, b) in enumerate(zip(ref['steps'], real_outcome['steps'])):
            if a != b:
                op = case['ops'][k]
                what = 'raises-or-not' if (a == 'raises') != (b == 'raises') else 'wrong-rows'
                if what == 'wrong-rows' and op['op'] == 'shuffle' and a.get('derived') == b.get('derived'):
                    what = 'reported-permutation'
                if what == 'wrong-rows' and op['op'] == 'col_select' and len(a.get('derived', ())) == len(
                        b.get('derived', ())) and all(dict(x, cols=None) == dict(y, cols=None)
                                                      for x, y in zip(a['derived'], b['derived'])):
                    what = 'wrong-columns'
                return core.Violation(f'hist/{op["op"]}/{what}',
                                      f'step {k} ({op}): the real dataset differs from the plain Python-list selection',
                                      dict(case, ops=case['ops'][:k + 1]), a, b)
        return core.Violation('hist/length', 'number of steps differs', case, ref, real_outcome)

    def _oracle_split_vs_get_split(self, case, out):
        """metamorphic, needs no reference: `d.split()` and `(d.get_split('train'), d.get_split('val'),
        d.get_split('test'))` taken from the same dataset `d` are the same three datasets"""
        if out.get('ctor') != 'ok':
            return None
        by_src = {}
        for k, (op, o) in enumerate(zip(case['ops'], out['steps'])):
            if not (isinstance(o, dict) and 'derived' in o):
                continue
            if op['op'] == 'split' and len(o['derived']) == 3:
                for nm, d in zip(G.SPLIT_NAMES, o['derived']):
                    by_src.setdefault((op['src'], nm), []).append((k, 'split()', d))
            elif op['op'] == 'get_split' and op['name'] in G.SPLIT_NAMES:
                by_src.setdefault((op['src'], op['name']), []).append((k, 'get_split', d := o['derived'][0]))
        for (src, nm), seen in by_src.items():
            k0, how0, d0 = seen[0]
            for k, how, d in seen[1:]:
                if d != d0:
                    return core.Violation(
                        'hist/split/differs-from-get_split',
                        f'dataset {src}: the {nm} subset obtained at step {k0} ({how0}) and at step {k} ({how}) differ',
                        dict(case, ops=case['ops'][:max(k, k0) + 1]), G._short(d0), G._short(d))
        return None

    def _oracle_gen(self, case, out):
        ref = G.ref_split(case)
        if ref == 'raises' or out == 'raises':
            if ref == out:
                return None
            return core.Violation('gen/ratio-assertions', 'generate_random_split accepts / rejects the ratios against '
                                  'the stated conditions', case, ref, out)
        arr = out['ok']
        counts = {v: arr.count(v) for v in (0, 1, 2)}
        if len(arr) != case['n'] or set(arr) - {0, 1, 2} or counts != ref['counts']:
            return core.Violation('gen/counts', 'split sizes are not floor(length x ratio) / remainder', case,
                                  ref['counts'], {'len': len(arr), 'counts': counts})
        return None

    # ------------------------------------------------------------------ evidence
    def nontrivial_key(self, case, out):
        if case['kind'] == 'gen':
            return core.stable_hash(case) if isinstance(out, dict) and len(out['ok']) >= 2 else None
        for o in out.get('steps', []):
            if isinstance(o, dict) and any(len(d['df'] or []) > 0 for d in o.get('derived', [])):
                return core.stable_hash(case)
        return None

    @staticmethod
    def _bucket(n):
        if n <= 12:
            return str(n)
        for lo, lab in ((65537, '65537+'), (4097, '4097-65536'), (257, '257-4096'), (17, '17-256')):
            if n >= lo:
                return lab
        return '13-16'

    def classify(self, case, out):
        if case['kind'] == 'gen':
            n = case['n']
            labs = ['kind:gen', f"gen:include_test={case['it']}", 'gen:' + ('raises' if out == 'raises' else 'ok'),
                    'gen:n=' + ('0' if n == 0 else '1-9' if n < 10 else '10-99' if n < 100 else '100-256' if n < 257
                                else '257-4096' if n < 4097 else '4097+')]
            if n >= 257:
                labs.append('scale:split-generator-length:257+')
            if self._too_big_for_model(case):
                labs.append('oracle-only:too-big-for-the-list-model')
            fs = Fraction(*case['rt']) + Fraction(*case['rv'])
            if Fraction(*case['rt']) > 0 and Fraction(*case['rv']) > 0:
                labs.append('gen:ratio-sum:' + ('exactly-1' if fs == 1 else '<1' if fs < 1 else '>1') + f":include_test={case['it']}:"
                            + ('raises' if out == 'raises' else 'ok'))
            if case.get('fam') == 'decimal-pair':
                labs.append('gen:decimal-literal-pair')
                x, y = case['rt'][0] / case['rt'][1], case['rv'][0] / case['rv'][1]
                if fs == 1 and 1 - x - y != 0:
                    labs.append('gen:decimal-pair:sum-exactly-1-but-1-a-b-nonzero-in-floats')
            return labs
        nsteps = len(case['ops'])
        labs = ['kind:hist', f"rows:{self._bucket(case['n'])}", f"labels:{case['label_kind']}", f"ctor:{case['ctor']}",
                f"split_dtype:{case['split_dtype']}", f"steps:{nsteps if nsteps < 15 else '15-32' if nsteps < 33 else '33+'}"]
        if case['n'] >= 17:
            labs.append('scale:rows:17+')
        if case['n'] >= 257:
            labs.append('scale:rows:257+')
        if case['n'] >= 4097:
            labs.append('scale:rows:4097+')
        if case['n'] >= 65537:
            labs.append('scale:rows:65537+')
        if nsteps >= 17:
            labs.append('scale:prior-calls:17+')
        if self._too_big_for_model(case):
            labs.append('oracle-only:too-big-for-the-list-model')
        # column names
        names = list(case['cols'])
        tgt = case['target']
        if 'coldefs' in case and set(names) - {'rid', 'c', 'y'}:
            labs.append('names:confusable-family')
            low = [x.lower() for x in names]
            if len(set(low)) < len(low):
                labs.append('names:case-variants')
            if any(a != b and a in b for a in names for b in names):
                labs.append('names:one-contains-another')
            if tgt is not None and any(tgt != b and tgt in b for b in names):
                labs.append('names:target-is-substring-of-a-feature')
            if tgt is not None and any(tgt != b and b in tgt for b in names):
                labs.append('names:feature-is-substring-of-target')
            if case.get('split_name', 's') not in ('s', 'split', '_split'):
                labs.append('names:split-column-from-the-family')
        if len(names) - (1 if tgt else 0) >= 3:
            labs.append('columns:3+features')
        for lo in (17, 257):
            if len(names) >= lo:
                labs.append(f'scale:columns:{lo}+')
        for v in (0, 1, 2):
            if case['n'] and v not in case['split']:
                labs.append(f'frame-with-empty-split:{v}')
        if out.get('ctor') != 'ok':
            return labs + ['ctor:raises']
        lineage = [set()]
        sizes = [case['n']]
        split_src = {}
        for op, o in zip(case['ops'], out['steps']):
            k = op['op']
            res = 'raises' if o == 'raises' else 'ok'
            if o == 'missing-source' or op['src'] >= len(lineage):
                labs.append('missing-source')
                continue
            hist = lineage[op['src']]
            if k == 'select':
                ix = op['ix']
                t = ix['t']
                if t == 'slice':
                    fl = any(isinstance(ix.get(x), dict) for x in 'ab')
                    t = ('fslice' if fl else 'slice') + ('' if ix.get('s') in (None, 1) else ':step')
                    kind = lambda b: 'None' if b is None else 'float' if isinstance(b, dict) else 'int'   # noqa: E731
                    st = ix.get('s')
                    labs.append(f"slice-form:{kind(ix.get('a'))}:{kind(ix.get('b'))}:step="
                                + ('None' if st is None else '1' if st == 1 else '>1' if st > 1 else '<=0') + f':{res}')
                else:
                    t = f"{t}/{ix.get('as', '')}"
                    if ix.get('as') in ('tensor', 'tensor32'):
                        labs.append('index-dtype:' + ('bool' if ix['t'] == 'mask' else
                                                      'int64' if ix['as'] == 'tensor' else 'int32'))
                    ln = len(ix.get('is', ix.get('bs', ())))
                    if ln >= 17:
                        labs.append('scale:index-argument:17+')
                    if ln >= 257:
                        labs.append('scale:index-argument:257+')
                    if ln >= 4097:
                        labs.append('scale:index-argument:4097+')
                    if ln > sizes[op['src']] >= 1 and ln >= 17:
                        labs.append('scale:index-longer-than-dataset')
                if ix.get('reuse') is not None:
                    labs.append('alias:index-reused')
                labs.append(f'select:{t}:{res}')
            elif k == 'col_select':
                form = op.get('form', 'legacy')
                labs.append(f'col_select:{res}')
                labs.append(f'col_select:form={form}:{res}')
                if len(op['cols']) >= 17:
                    labs.append(f'scale:col_select-argument:17+:{res}')
                if tgt is not None and any(tgt != c and tgt in c for c in op['cols']):
                    labs.append(f'col_select:{form}:name-contains-target-name:{res}')
                if tgt is not None and any(tgt != c and c in tgt and c != '' for c in op['cols']):
                    labs.append(f'col_select:{form}:name-contained-in-target-name:{res}')
            else:
                labs.append(f'{k}:{res}')
            if k in ('get_split', 'split') and res == 'ok':
                if 'shuffle' in hist:
                    labs.append('split-lookup-after-shuffle')
                if 'select' in hist:
                    labs.append('split-lookup-after-selection')
                if any(len(d['df'] or []) == 0 for d in o['derived']):
                    labs.append('split-lookup-returns-empty')
                if sizes[op['src']] >= 17:
                    labs.append(f'scale:{k}-of-17+-rows')
                if sizes[op['src']] >= 257:
                    labs.append(f'scale:{k}-of-257+-rows')
                kinds = split_src.setdefault(op['src'], set())
                kinds.add(k)
                if kinds == {'get_split', 'split'}:
                    labs.append('split()-and-get_split()-on-the-same-dataset')
            if isinstance(o, dict) and 'derived' in o:
                for d in o['derived']:
                    lineage.append(hist | {k})
                    sizes.append(len(d['df'] or []))
                    if len(d['df'] or []) == 0 and d['mat']:
                        labs.append('derives-empty-dataset')
                if len(hist) >= 2:
                    labs.append('derived-from-derived-from-derived')
        return labs

    # ------------------------------------------------------------------ exhaustive boxes
    def extra_checks(self, rng, tier, report):
        thorough = tier == 'thorough'
        drv = core.Driver(self.driver)
        extra = report['extra']

        def disagree(tag, case, real, model):
            report['broken'].append(f'correspondence ({tag}): model {str(model)[:120]} vs code {str(real)[:120]}')
            report.setdefault('disagree_samples', []).append({'case': case, 'real': real, 'model': model})

        # (1) Python round vs the model's roundHalfEven, exhaustively on a box
        P, Q, N = (60, 16, 16) if thorough else (24, 9, 9)
        reqs, exp = [], []
        for p in range(-P, P + 1):
            for q in range(1, Q + 1):
                for n in range(0, N + 1):
                    reqs.append({'cmd': 'round', 'p': p, 'q': q, 'n': n})
                    exp.append(round(Fraction(p, q) * n))
        bad = sum(1 for a, b in zip(drv.ask(reqs), exp) if a != b)
        if bad:
            report['broken'].append(f'rounding box: model roundHalfEven differs from Python round on {bad} inputs')
        extra['round_box'] = {'cases': len(reqs), 'p': f'-{P}..{P}', 'q': f'1..{Q}', 'n': f'0..{N}',
                              'exhaustive': True, 'disagreements': bad}

        # (2) fractional-slice box on the real Dataset: every pair of bounds from a grid, every length
        grid = [None] + [{'f': [k, 8]} for k in range(-3, 12)] + [{'f': [k, 10]} for k in range(-2, 13)] + \
               [{'f': [k, 3]} for k in range(0, 4)] + [2, -2]
        sizes = range(0, 13) if thorough else (0, 1, 2, 3, 5, 6, 7, 10)
        skipped = 0
        ncase = nbad = 0
        for n in sizes:
            ok_bounds = []
            for b in grid:
                if isinstance(b, dict) and not G.float_round_ok(b, n):
                    skipped += 1
                    continue
                ok_bounds.append(b)
            ops = [{'op': 'materialize', 'src': 0}]
            for a, b in itertools.product(ok_bounds, ok_bounds):
                if not isinstance(a, dict) and not isinstance(b, dict):
                    continue
                ops.append({'op': 'select', 'src': 0, 'ix': {'t': 'slice', 'a': a, 'b': b, 's': None}})
            # the three-argument form: every kind of bound (None / int / float) x step 1 / 2 / 3 / 7 on a coarser grid
            coarse = [b for b in ok_bounds if not isinstance(b, dict) or b['f'] in ([0, 8], [2, 8], [4, 8], [7, 8], [8, 8], [3, 10],
                                                                                 [9, 10], [-2, 8], [1, 3], [12, 10])] + [1, n]
            for a, b in itertools.product(coarse, coarse):
                for st in (1, 2, 3, 7):
                    ops.append({'op': 'select', 'src': 0, 'ix': {'t': 'slice', 'a': a, 'b': b, 's': st}})
            case = {'kind': 'hist', 'n': n, 'labels': list(range(5, 5 + n)), 'label_kind': 'offset',
                    'cols': ['rid', 'y'], 'target': 'y', 'split': [i % 3 for i in range(n)], 'ctor': 'ok',
                    'split_dtype': 'int64', 'ops': ops}
            real, findings = G.run_real_history(case, watch='src')
            self._findings = findings
            v = self.oracle(case, real)
            self._findings = []
            if v is not None:
                # shrink to the single offending slice
                for k, (a, b) in enumerate(zip(G.ref_run(case)['steps'], real.get('steps', []))):
                    if a != b and k > 0:
                        small = dict(case, ops=[ops[0], ops[k]])
                        r2, f2 = G.run_real_history(small)
                        self._findings = f2
                        v2 = self.oracle(small, r2)
                        self._findings = []
                        v = v2 or v
                        break
                v.key = 'box/' + v.key
                v.what = 'fractional-slice box: ' + v.what
                report['violations'].append(v)
            model = self.model_outcome(case, drv.ask(self.model_requests(case)))
            ncase += len(ops) - 1
            if model != real:
                nbad += 1
                if nbad <= 3:
                    disagree('fractional-slice box', {'n': n}, str(real)[:200], str(model)[:200])
        extra['fractional_slice_box'] = {'cases': ncase, 'lengths': str(list(sizes)),
                                         'bounds': 'None, k/8 (k=-3..11), k/10 (k=-2..12), k/3 (k=0..3), 2, -2; every '
                                                   'ordered pair with at least one float bound, step None; plus every ordered '
                                                   'pair of a coarser grid (None, 10 fractions, 2, -2, 1, n) with steps 1, 2, 3, 7',
                                         'float-boundary-skipped': skipped, 'exhaustive': True, 'disagreements': nbad}

        # (3) split-generator box: all lengths x all ratio pairs of a grid x include_test x seeds
        ratios = [[k, 10] for k in range(0, 11)] + [[1, 4], [3, 4], [1, 3], [2, 3], [1, 8], [7, 8], [-1, 10], [11, 10]]
        lens = range(0, 41) if thorough else range(0, 13)
        seeds = (0, 1, 12345) if thorough else (0, 7)
        reqs, reals, cases = [], [], []
        gskipped = 0
        for n in lens:
            for rt, rv in itertools.product(ratios, ratios):
                for it in (True, False):
                    if not G.split_float_ok(n, rt, rv, it):
                        gskipped += 1
                        continue
                    for seed in seeds:
                        case = {'kind': 'gen', 'n': n, 'seed': seed, 'rt': rt, 'rv': rv, 'it': it,
                                'prior': [seed + 1, 4242], 'burn': 0}
                        # the raising combinations do not depend on the seed: one seed is enough
                        if seed != seeds[0] and G.ref_split(case) == 'raises':
                            continue
                        out, findings = G.run_real_split(case)
                        self._findings = findings
                        v = self.oracle(case, out)
                        self._findings = []
                        if v is not None:
                            v.key = 'box/' + v.key
                            report['violations'].append(v)
                        cases.append(case)
                        reals.append(out)
                        reqs += self.model_requests(case)
        # every decimal pair of the 0.01 grid whose decimal sum is exactly 1, and its two neighbours (sum 0.99 / 1.01)
        dec = 0
        for k in range(1, 100):
            for j in (100 - k, 99 - k, 101 - k):
                if j <= 0:
                    continue
                for it in (True, False):
                    for n in ((10, 15, 100) if thorough else (10, 15)):
                        rt, rv = [k, 100], [j, 100]
                        if not G.split_float_ok(n, rt, rv, it):
                            gskipped += 1
                            continue
                        case = {'kind': 'gen', 'n': n, 'seed': 3, 'rt': rt, 'rv': rv, 'it': it, 'prior': [4, 4242], 'burn': 0,
                                'fam': 'decimal-pair'}
                        out, findings = G.run_real_split(case)
                        self._findings = findings
                        v = self.oracle(case, out)
                        self._findings = []
                        if v is not None:
                            v.key = 'box/' + v.key
                            report['violations'].append(v)
                        cases.append(case)
                        reals.append(out)
                        reqs += self.model_requests(case)
                        dec += 1
        extra['split_generator_decimal_pairs'] = {'cases': dec, 'grid': 'k/100 with (100-k)/100, (99-k)/100, (101-k)/100, k=1..99',
                                                  'include_test': 'both'}
        gbad = 0
        for case, out, rep in zip(cases, reals, drv.ask(reqs)):
            if rep != out:
                gbad += 1
                if gbad <= 3:
                    disagree('split-generator box', case, out, rep)
        extra['split_generator_box'] = {'cases': len(cases), 'lengths': f'{lens[0]}..{lens[-1]}',
                                        'ratios': 'k/10 (k=0..10), 1/4, 3/4, 1/3, 2/3, 1/8, 7/8, -1/10, 11/10; all ordered pairs',
                                        'include_test': 'both', 'seeds': str(list(seeds)),
                                        'float-boundary-skipped': gskipped, 'exhaustive': True, 'disagreements': gbad}

        # (4) constructor validation of the split column (oracle only)
        probes = self._ctor_probes()
        for name, ok_expected, ok_real in probes:
            if ok_expected != ok_real:
                report['violations'].append(core.Violation(
                    f'ctor/{name}', f'Dataset(...) split-column validation: {name} expected '
                    f'{"accepted" if ok_expected else "rejected"}', {'probe': name}, ok_expected, ok_real))
        extra['constructor_probes'] = len(probes)
        extra['float-boundary-skipped'] = dict(self._stats)

        # (5) every rung of the size ladder of this stress level, deterministically: one history per rung that
        #     shuffles, splits, looks the splits up one by one, and selects with index arguments of that length
        from harness import stress
        rungs, lbad = [], 0
        for n in stress.ladder(self.level):
            case = G.ladder_history(rng, n)
            real, findings = G.run_real_history(case, watch='all' if n <= 5000 else 'src')
            self._findings = findings
            v = self.oracle(case, real)
            self._findings = []
            if v is not None:
                v.key = 'ladder/' + v.key
                v.what = f'size ladder ({n} rows): ' + v.what
                report['violations'].append(v)
            with_model = not self._too_big_for_model(case)
            if with_model:
                model = self.model_outcome(case, drv.ask(self.model_requests(case)))
                if model != real:
                    lbad += 1
                    if lbad <= 3:
                        disagree('size ladder', {'n': n, 'ops': [o['op'] for o in case['ops']]},
                                 str(real)[:200], str(model)[:200])
            rungs.append({'rows': n, 'steps': len(case['ops']), 'compared_with_model': with_model})
        extra['size_ladder'] = {'rungs': rungs, 'disagreements': lbad}

        # (6) index tensors of dtypes torch itself rejects or treats as deprecated masks: logged, not generated
        extra['observed_outside_generated_domain'] = self._index_dtype_probes()

    def _index_dtype_probes(self):
        import warnings
        import torch
        out = {}
        case = {'kind': 'hist', 'n': 6, 'labels': list(range(6)), 'label_kind': 'range', 'cols': ['rid', 'c', 'y'],
                'target': 'y', 'split': [0, 1, 2, 0, 1, 2], 'ctor': 'ok', 'split_dtype': 'int64',
                'ops': [{'op': 'materialize', 'src': 0}]}
        with warnings.catch_warnings():
            warnings.simplefilter('ignore')
            import torch_frame
            from torch_frame.data import Dataset
            df = G.build_df(case)
            ds = Dataset(df, {'rid': torch_frame.numerical, 'c': torch_frame.categorical, 'y': torch_frame.numerical},
                         target_col='y', split_col='s').materialize()
            ob = G.Observer(case, [])
            for name, dt in (('int16', torch.int16), ('int8', torch.int8), ('uint8', torch.uint8),
                             ('float32', torch.float32)):
                for vals in ([1, 0, 1, 0, 1, 1], [3, 1]):
                    try:
                        o = ob.obs(ds[torch.tensor(vals, dtype=dt)], 0)
                        res = {'df_rows': o['df'], 'tensor_frame_rows': o['tf'], 'aligned': o['df'] == o['tf']}
                    except Exception as e:
                        res = f'raises {type(e).__name__}'
                    out[f'index tensor dtype {name}, values {vals}, on 6 rows'] = res
        out['note'] = ('int16 / int8 / float index tensors are rejected by torch; a uint8 tensor is read as a position '
                       'list by DataFrame.iloc and as a (deprecated) mask by torch indexing, so a 0/1 uint8 tensor of '
                       'the dataset\'s length yields a DataFrame and a TensorFrame holding different rows; index '
                       'tensors are generated with dtype int64 / int32 / bool only')
        return out

    def _ctor_probes(self):
        import numpy as np
        import pandas as pd
        import torch_frame
        from torch_frame.data import Dataset
        out = []

        def attempt(name, expected, df, stypes, **kw):
            try:
                Dataset(df, stypes, **kw)
                ok = True
            except Exception:
                ok = False
            out.append((name, expected, ok))
        base = {'rid': np.arange(4.), 'y': np.arange(4.) + 1000}
        st = {'rid': torch_frame.numerical, 'y': torch_frame.numerical}
        for vals, exp in (([0, 1, 2, 0], True), ([0, 0, 0, 0], True), ([0, 1, 2, 3], False), ([0, -1, 1, 2], False),
                          ([0., 1., 2., float('nan')], False), ([0.5, 1, 2, 0], False)):
            attempt(f'values {vals}', exp, pd.DataFrame(dict(base, s=vals)), st, target_col='y', split_col='s')
        attempt('split_col missing from df', False, pd.DataFrame(base), st, target_col='y', split_col='s')
        attempt('split_col listed in col_to_stype', False, pd.DataFrame(dict(base, s=[0, 1, 2, 0])),
                dict(st, s=torch_frame.numerical), target_col='y', split_col='s')
        attempt('no split_col', True, pd.DataFrame(dict(base, s=[0, 1, 2, 9])), st, target_col='y')
        return out


CHECK = C09()

"""C19 - feature mixup swaps whole features with one partner row and mixes targets convexly."""
import math

from harness import core, mixup

BETAS = [0.1, 0.5, 1.0, 2.0, 5.0]


def _dy(rng, lo=-64, hi=64, den=8):
    return rng.randint(lo, hi) / den


class C19(core.Check):
    pid = 'C19'
    title = 'feature mixup'
    driver = 'drv_c19'
    quick_cases = 6000
    thorough_cases = 60000
    rule = ('seeded calls of the real feature_mixup (75%) and of ExcelFormer.forward(mixup_encoded=True) (25%, one '
            'ExcelFormerConv layer, real encoder; half of them as the second mixup call of the same model instance after a frame with other mi_scores): B 0-6, F 1-5, D 1-4 (forward: 2-4), num_classes 1-4, mode '
            'None/feature/hidden, beta in {0.1,0.5,1,2,5}, float32 and float64, dyadic feature values with '
            'deliberate own/partner coincidences, mi scores >= 0 with zeros and positive sum, ~7% calls outside '
            'the domain (num_classes 0, missing / wrongly sized mi_scores, float or out-of-range class targets, '
            'frame without y). A case is non-trivial when the call returns and at least one row differs from '
            'its input row or has a mixed target; distinct = distinct (inputs, seed) hash. Hardening families: forward '
            'calls after a history on the ONE model object (constructor configuration != configuration at call time: '
            'model.mixup / model.beta reassigned, earlier mixup / plain forwards with the same, one more or a single row, '
            'reset_parameters, train / eval, dropout rates > 0); 0/1 targets in int32 / int16 / uint8 / bool, float64 '
            'targets or mi scores with float32 features and vice versa; feature values -0.0, +-2^127, 2^-126, 2^24+2 '
            '(float32-exact) and 0.1, +-1e39, 1.7e308, 5e-324 (float64); unnormalised mi magnitudes 1e-20 .. 1e20; x as a '
            'strided / transposed / sliced / batch-expanded view; the same call twice; the Beta concentration actually '
            'used is read from the captured draw; 2% scale cases from the stress ladder (batch up to 65 537, columns, '
            'channels, classes)')
    partial_notes = (
        'lambda <= 1 holds in the ordered-field theorem; in float32 a mixed class row may sum to 1 within one '
        'ulp - compared with abs/rel 1e-6 (float32) and 1e-9 (float64), stated tolerance, not a finding',
        'the random draws (Beta sample, randperm, uniform numbers) are inputs of the model; that a Beta sample '
        'lies in [0,1] and randperm returns a permutation is an assumption about torch, checked on the captured '
        'draws of every case',
        'entries are assumed finite: the code selects arithmetically (mask*x + ~mask*x[perm]), so a non-finite '
        'partner entry would turn the kept own entry into NaN (0*inf); encoders produce finite values',
    )
    assumptions = ('torch.randperm / torch.rand / Beta.sample are wrapped in the harness process only, to read '
                   'the draws the real call used; the wrappers return the original values unchanged',)

    # ------------------------------------------------------------------ generation
    def generate(self, rng, n, tier):
        from harness import stress
        budget = {0: 1.0e6, 1: 6.0e6, 2: 1.0e7}[self.level]      # volume (tensor cells) the scale cases of one run may take
        for _ in range(n):
            kind = 'forward' if rng.random() < 0.25 else 'fn'
            B = rng.choice([0, 1, 2, 2, 3, 3, 4, 5, 6])
            F = rng.randint(1, 5)
            D = rng.randint(2, 4) if kind == 'forward' else rng.randint(1, 4)
            mode = rng.choice(['off', 'feature', 'hidden'])
            C = rng.choice([1, 1, 2, 3, 4])
            dtype = rng.choice(['f32', 'f64'])
            scale = None
            oracle_only = False
            if rng.random() < 0.02:       # one size from the ladder of this stress level
                scale = rng.choice(['B', 'B', 'B', 'F', 'D', 'C'])
                if scale == 'B':
                    B = stress.pick_size(rng, self.level, 4097 if kind == 'forward' else 65537)
                    if B > 5000:
                        F, D = rng.randint(1, 2), rng.randint(1, 2) if kind == 'fn' else 2
                elif scale == 'F':
                    F = stress.pick_size(rng, self.level, 257 if kind == 'forward' else 4097)
                    B = rng.randint(1, 6)
                elif scale == 'D':
                    D = stress.pick_size(rng, self.level, 256 if kind == 'forward' else 4097)
                    D += D % 2 if kind == 'forward' else 0
                    B = rng.randint(1, 6)
                else:
                    C = stress.pick_size(rng, self.level, 1025)
                    B = rng.choice([B, stress.pick_size(rng, 0)])
                vol = B * F * D * (8 if kind == 'forward' else 1) + B * C
                if vol > budget:      # budget used up: an ordinary small case instead
                    scale, B, F, C = None, rng.randint(1, 6), rng.randint(1, 5), rng.choice([1, 2, 3])
                    D = rng.randint(2, 4)
                else:
                    budget -= vol
                    if B * F * D * (B + F + D) > 5e7:
                        oracle_only = True
            case = {'kind': kind, 'seed': rng.randrange(1 << 30), 'dtype': dtype, 'B': B, 'F': F, 'D': D, 'C': C,
                    'mode': mode, 'beta': rng.choice(BETAS)}
            if scale:
                case['scale'] = scale
            if scale and oracle_only:
                case['oracle_only'] = True     # the list model is quadratic in the sizes: judged by the direct oracle alone
            # mutual-information scores
            mi = [rng.choice([0, 0, 1, 2, 3, 5, 8, 13]) / 8 for _ in range(F)]
            r = rng.random()
            if r < 0.08:          # unnormalised magnitudes: huge, tiny, far apart
                mi = [rng.choice([0.0, 1e-20, 3.0, 2.0 ** 24 + 2, 1e20, 0.5]) for _ in range(F)]
            if sum(mi) == 0:
                mi[rng.randrange(F)] = 1.0
            case['mi'] = mi if (mode == 'feature' or rng.random() < 0.3) else None
            if case['mi'] is not None and rng.random() < 0.2:
                case['mi_dtype'] = rng.choice(['f64', 'f32'])       # not necessarily the dtype of x
            # targets
            if C == 1:
                if rng.random() < 0.3:
                    case['y'] = {'t': 'index', 'v': [rng.randint(0, 1) for _ in range(B)]}
                    if rng.random() < 0.5:
                        case['y']['idt'] = rng.choice(['int32', 'uint8', 'bool', 'int16'])   # 0/1 labels held in any integer dtype
                else:
                    ydt = dtype if rng.random() < 0.8 else rng.choice(['f32', 'f64'])
                    pool = [-1.0, 0.5, -0.0, 1.0, 0.0]
                    if dtype == 'f64' and ydt == 'f64' and case.get('mi_dtype') != 'f32':
                        # wide magnitudes only where the whole computation is in double: in float32 the mix of 1e6 and
                        # 0.5 cancels to ~1e-1 absolute error, which is arithmetic, not a property of the code
                        pool += [1e5, -65536.0, 0.1, 1.0 / 3.0]      # spread x 2^-53 stays below the 1e-9 comparison
                    case['y'] = {'t': 'scalar', 'dtype': ydt,
                                 'v': [(rng.choice(pool) if rng.random() < 0.1 else _dy(rng, -32, 32)) for _ in range(B)]}
            else:
                case['y'] = {'t': 'index', 'v': [rng.randrange(C) for _ in range(B)]}
            # features
            if kind == 'fn':
                pool = [_dy(rng) for _ in range(rng.choice([2, 4, 50]))]
                if rng.random() < 0.2:     # finite edge magnitudes, signed zero, sentinel look-alikes
                    pool += [-0.0, 0.0, -1.0, 0.5, 2.0 ** 127, -2.0 ** 127, 2.0 ** 24 + 2, 2.0 ** -126]     # exact in float32
                    if dtype == 'f64':
                        pool += [0.1, 1e39, -1e39, 1.7e308, 5e-324, 2.0 ** 24 + 1]
                if B * F * D > 3000:
                    case['x'] = [[[rng.choice(pool) if rng.random() < 0.3 else float(rng.randint(-512, 512)) / 8
                                   for _ in range(D)] for _ in range(F)] for _ in range(B)]
                else:
                    case['x'] = [[[rng.choice(pool) if rng.random() < 0.3 else _dy(rng) for _ in range(D)]
                                  for _ in range(F)] for _ in range(B)]
                if rng.random() < 0.25:
                    case['xview'] = rng.choice(['strided', 'expanded-batch', 'transposed', 'slice-of-bigger'])
                    if case['xview'] == 'expanded-batch' and B > 0:     # B views of ONE row: own == partner everywhere
                        case['x'] = [case['x'][0] for _ in range(B)]
                if rng.random() < 0.1:
                    case['again'] = True       # the same call once more (same seed): the function keeps no state
            else:
                case['feat'] = [[_dy(rng) for _ in range(F)] for _ in range(B)]
                case['heads'] = 2 if D % 2 == 0 and rng.random() < 0.5 else 1
                # history on ONE model object before the observed call; the observed call must follow the
                # configuration the object has at that moment (attributes are public and may be reassigned)
                hist = []
                ctor_mode, ctor_beta = mode, case['beta']
                r = rng.random()
                if r < 0.5:
                    hist.append(['call', True, 'other-mi'])          # an earlier mixup forward with other mi_scores
                if rng.random() < 0.4:
                    ctor_mode = rng.choice(['off', 'feature', 'hidden'])
                    if rng.random() < 0.5:
                        hist.append(['call', True, rng.choice(['same', 'one-more-row', 'single-row'])])
                    if rng.random() < 0.3:
                        hist.append(['set_mixup', rng.choice(['off', 'feature', 'hidden'])])
                    hist.append(['set_mixup', mode])
                if rng.random() < 0.3:
                    ctor_beta = rng.choice(BETAS)
                    hist.append(['set_beta', case['beta']])
                for _ in range(rng.choice([0, 0, 0, 1, 2])):
                    hist.append(rng.choice([['reset'], ['train'], ['eval'], ['call', False, 'same'],
                                            ['call', True, 'single-row'], ['call', True, 'one-more-row']]))
                if scale == 'B' and rng.random() < 0.5:
                    hist = [h for h in hist if h[0] != 'call']
                case['hist'] = hist
                case['ctor'] = {'mode': ctor_mode, 'beta': ctor_beta}
                if rng.random() < 0.25:     # dropout rates off the default; mixup sits before every dropout
                    case['dropout'] = [rng.choice([0.0, 0.1, 0.5]) for _ in range(3)]
            # a minority of calls outside the domain
            r = rng.random()
            if r < 0.07 and not scale:
                what = rng.choice(['C0', 'nomi', 'milen', 'yfloat', 'yrange', 'noy'])
                if what == 'C0' and kind == 'fn':
                    case['C'] = 0
                elif what == 'nomi':
                    case['mode'], case['mi'] = 'feature', None
                    case.pop('mi_dtype', None)
                    if kind == 'forward':
                        case['hist'] = [h for h in case['hist'] if h[0] != 'set_mixup'] + [['set_mixup', 'feature']]
                elif what == 'milen' and F >= 2:
                    case['mode'], case['mi'] = 'feature', mi + [1.0]
                    if kind == 'forward':
                        case['hist'] = [h for h in case['hist'] if h[0] != 'set_mixup'] + [['set_mixup', 'feature']]
                elif what == 'yfloat' and C > 1 and B > 0:
                    case['y'] = {'t': 'scalar', 'dtype': dtype, 'v': [_dy(rng) for _ in range(B)]}
                elif what == 'yrange' and C > 1 and B > 0:
                    v = list(case['y']['v'])
                    v[rng.randrange(B)] = rng.choice([C, C + 1, -1])
                    case['y'] = {'t': 'index', 'v': v}
                elif what == 'noy' and kind == 'forward':
                    case['y'] = None
            yield case

    # ------------------------------------------------------------------ the real code
    def real(self, case):
        import torch
        from torch_frame.nn.models import excelformer as ex
        dt = mixup.torch_dtype(case['dtype'])
        torch.manual_seed(case['seed'])
        rec = {}
        y = mixup.target_tensor(case['y'])
        mi = None if case['mi'] is None else torch.tensor(case['mi'], dtype=mixup.torch_dtype(case.get('mi_dtype', case['dtype'])))
        mode = mixup.MODES[case['mode']]
        case.pop('draws', None)
        case.pop('x_encoded', None)
        try:
            if case['kind'] == 'fn':
                x = mixup.make_view(torch.tensor(case['x'], dtype=dt).reshape(case['B'], case['F'], case['D']),
                                    case.get('xview'))
                x0, y0, mi0 = x.clone(), y.clone(), (None if mi is None else mi.clone())
                with mixup.capture_draws(rec):
                    xo, yo = ex.feature_mixup(x, y, num_classes=case['C'], beta=case['beta'], mixup_type=mode,
                                              mi_scores=mi)
                if not (mixup.same_bits(x, x0) and mixup.same_bits(y, y0) and (mi is None or mixup.same_bits(mi, mi0))):
                    return {'error': 'input modified'}
                if case.get('again'):
                    torch.manual_seed(case['seed'])
                    xo2, yo2 = ex.feature_mixup(x, y, num_classes=case['C'], beta=case['beta'], mixup_type=mode,
                                                mi_scores=mi)
                    if not (mixup.same_bits(xo, xo2) and mixup.same_bits(yo, yo2)):
                        return {'error': 'second identical call differs'}
            else:
                xo, yo, xin = self._forward(case, rec, dt, y, mi, mode)
                case['x_encoded'] = mixup.nest(xin, mixup.fbits)
        except Exception as e:  # noqa
            case['draws'] = mixup.draws_json(rec, case['B'])
            self._last_exc = f'{type(e).__name__}: {e}'
            return 'raises'
        case['draws'] = mixup.draws_json(rec, case['B'])
        return {'x': mixup.nest(xo, mixup.canon_float), 'y': mixup.canon_y(yo),
                'shape': list(xo.shape)}

    def _forward(self, case, rec, dt, y, mi, mode):
        import torch
        import torch_frame
        from torch_frame import stype
        from torch_frame.data.stats import StatType
        from torch_frame.nn import ExcelFormer
        B, F, D = case['B'], case['F'], case['D']
        names = [f'c{j}' for j in range(F)]
        feat = torch.tensor(case['feat'], dtype=dt).reshape(B, F)
        tf = torch_frame.TensorFrame({stype.numerical: feat}, {stype.numerical: names}, y=y)
        if mi is not None:
            tf.mi_scores = mi
        col_stats = {n: {StatType.MEAN: 0.25 * j, StatType.STD: 1.0 + 0.5 * j,
                         StatType.QUANTILES: [-8.0, -2.0, 0.0, 2.0, 8.0]} for j, n in enumerate(names)}
        ctor = case.get('ctor') or {'mode': case['mode'], 'beta': case['beta']}
        dp = case.get('dropout') or [0.0, 0.0, 0.0]
        model = ExcelFormer(in_channels=D, out_channels=case['C'], num_cols=F, num_layers=1,
                            num_heads=case['heads'], col_stats=col_stats, col_names_dict=tf.col_names_dict,
                            diam_dropout=dp[0], aium_dropout=dp[1], residual_dropout=dp[2],
                            mixup=mixup.MODES[ctor['mode']], beta=ctor['beta'])
        model = model.to(dt)
        model.eval()
        seen = {}
        h1 = model.excelformer_encoder.register_forward_hook(
            lambda m, a, out: seen.__setitem__('enc', out[0].detach().clone()))
        h2 = model.excelformer_convs[0].register_forward_pre_hook(
            lambda m, a: seen.__setitem__('conv_in', a[0].detach().clone()))
        hist = case.get('hist')
        if hist is None:
            hist = [['call', True, 'other-mi']] if case.get('warm') else []
        for op in hist:
            if op[0] == 'set_mixup':
                model.mixup = mixup.MODES[op[1]]
            elif op[0] == 'set_beta':
                model.beta = op[1]
            elif op[0] == 'reset':
                model.reset_parameters()
            elif op[0] == 'train':
                model.train()
            elif op[0] == 'eval':
                model.eval()
            elif op[0] == 'call' and B > 0 and y is not None:
                f0, y0 = feat.flip(0) + 1.0, y
                if op[2] == 'one-more-row':
                    f0, y0 = torch.cat([f0, f0[:1]]), torch.cat([y, y[:1]])
                elif op[2] == 'single-row':
                    f0, y0 = f0[:1], y[:1]
                tf0 = torch_frame.TensorFrame({stype.numerical: f0}, {stype.numerical: names}, y=y0)
                if op[2] == 'other-mi' or mi is not None:
                    tf0.mi_scores = torch.tensor([float((3 * j) % 5 + 1) for j in range(F)], dtype=dt)
                try:
                    with torch.no_grad():
                        model(tf0, mixup_encoded=op[1])
                except Exception:   # noqa  (an out-of-domain target fails here exactly as in the observed call)
                    pass
        try:
            with torch.no_grad(), mixup.capture_draws(rec):
                out, yo = model(tf, mixup_encoded=True)
        finally:
            h1.remove()
            h2.remove()
        assert out.shape == (B, case['C'])
        return seen['conv_in'], yo, seen['enc']

    # ------------------------------------------------------------------ the model
    def model_requests(self, case):
        if case.get('oracle_only'):
            return []
        dr = case.get('draws') or {'rates': [], 'perm': [], 'u': []}
        y = case['y']
        yj = None
        if y is not None:
            yj = {'t': y['t'], 'v': [mixup.fbits(v) for v in y['v']] if y['t'] == 'scalar' else y['v']}
        if case['kind'] == 'fn':
            x = [[[mixup.fbits(v) for v in col] for col in row] for row in case['x']]
        else:
            x = case.get('x_encoded')
            if x is None:       # the encoder was never reached (e.g. the constructor raised)
                x = []
        return [{'cmd': 'mixup' if case['kind'] == 'fn' else 'forward', 'C': case['C'], 'mode': case['mode'],
                 'mi': None if case['mi'] is None else [mixup.fbits(v) for v in case['mi']],
                 'draws': {'rates': dr['rates'], 'perm': dr['perm'], 'u': dr['u']},
                 'B': case['B'], 'F': case['F'], 'D': case['D'], 'x': x, 'y': yj}]

    def model_outcome(self, case, replies):
        if case.get('oracle_only'):
            return core.SKIP_MODEL
        r = replies[0]
        if r == 'raises':
            return r
        x = [[[('nan' if math.isnan(core.bits_float(v)) else v) for v in col] for col in row] for row in r['x']]
        y = r['y']
        if 'vec' in y:
            y = {'vec': [core.bits_float(v) for v in y['vec']]}
        else:
            y = {'mat': [[core.bits_float(v) for v in row] for row in y['mat']]}
        return {'x': x, 'y': y, 'tol': self._tol(case)}

    @staticmethod
    def _tol(case):
        if case['mode'] == 'feature' and case.get('mi_dtype') == 'f32':
            return 1e-6          # lambda is computed from the float32 mutual-information scores
        return 1e-9 if case['dtype'] == 'f64' else 1e-6

    def equal(self, real, model):
        if real == 'raises' or model == 'raises':
            return real == model
        if 'error' in real:
            return False
        if real['x'] != model['x']:          # pure selection: exact
            return False
        ry, my = real['y'], model['y']
        if set(ry) != set(my):
            return False
        tol = model['tol']
        flat = (lambda v: v) if 'vec' in ry else (lambda v: [a for row in v for a in row])
        key = 'vec' if 'vec' in ry else 'mat'
        if 'mat' in ry and [len(r) for r in ry['mat']] != [len(r) for r in my['mat']]:
            return False
        a, b = flat(ry[key]), flat(my[key])
        if len(a) != len(b):
            return False
        return all((math.isnan(p) and math.isnan(q)) or abs(p - q) <= tol * (1 + abs(q)) for p, q in zip(a, b))

    # ------------------------------------------------------------------ the direct oracle
    def oracle(self, case, real):
        exp_raise = mixup.expected_raise(case)
        if real == 'raises':
            if exp_raise:
                return None
            return core.Violation(f"{case['kind']}/raises-in-domain",
                                  f"{case['kind']} call inside the domain raised: {getattr(self, '_last_exc', '')}",
                                  case, 'mixed features and targets', 'raises')
        if exp_raise:
            return None      # the property says nothing about calls outside its domain
        if 'error' in real:
            return core.Violation(f"{case['kind']}/{real['error'].replace(' ', '-')}", f"feature_mixup: {real['error']}", case)
        B, F, D, C = case['B'], case['F'], case['D'], case['C']
        if real['shape'] != [B, F, D]:
            return core.Violation(f"{case['kind']}/shape", 'mixed features have a different shape', case,
                                  [B, F, D], real['shape'])
        x = case['x'] if case['kind'] == 'fn' else \
            [[[core.bits_float(v) for v in col] for col in row] for row in case['x_encoded']]
        xo = [[[float('nan') if v == 'nan' else core.bits_float(v) for v in col] for col in row]
              for row in real['x']]
        y = real['y']
        if C == 1:
            if 'vec' not in y or len(y['vec']) != B:
                return core.Violation(f"{case['kind']}/target-shape", 'scalar target must come back as [B]', case)
            yo = [[v] for v in y['vec']]
        else:
            if 'mat' not in y or len(y['mat']) != B or any(len(r) != C for r in y['mat']):
                return core.Violation(f"{case['kind']}/target-shape", 'class target must come back as [B, C]', case)
            yo = y['mat']
        bad = mixup.explain_rows(case, x, xo, yo, self._tol(case), hint=(case.get('draws') or {}).get('perm'))
        if bad is not None:
            i, why = bad
            return core.Violation(f"{case['kind']}/{case['mode']}/no-single-partner",
                                  f"row {i} of the mixed batch is not explained by any single partner row "
                                  f"(mode {case['mode']}): {why}", case,
                                  'every entry from the row itself or ONE partner row (whole columns / channels), '
                                  'target = lambda*own + (1-lambda)*partner with lambda in [0,1] '
                                  '(feature mode: the kept mutual-information share)',
                                  {'x_row': xo[i], 'y_row': yo[i]})
        # assumptions about torch's draws, checked on what was captured
        dr = case.get('draws') or {}
        # a configured mixup mode must act: if the captured draws select at least one position whose partner entry
        # differs, the mixed batch cannot be the input batch (a mode that is silently ignored still draws)
        if case['mode'] in ('feature', 'hidden') and B > 0 and dr.get('perm') and dr.get('rates') and dr.get('u') \
                and len(dr['perm']) == B and len(dr['rates']) == B and len(dr['u']) == B:
            swaps = False
            for i in range(B):
                rate = core.bits_float(dr['rates'][i])
                pi = dr['perm'][i]
                for j, ub in enumerate(dr['u'][i]):
                    if core.bits_float(ub) < rate:
                        continue                       # kept from the row itself
                    if case['mode'] == 'feature' and j < F:
                        own, par = x[i][j], x[pi][j]
                    elif case['mode'] == 'hidden' and j < D:
                        own, par = [x[i][f][j] for f in range(F)], [x[pi][f][j] for f in range(F)]
                    else:
                        continue
                    if any(a != b and not (a != a and b != b) for a, b in zip(own, par)):
                        swaps = True
                        break
                if swaps:
                    break
            same = all(a == b or (a != a and b != b)
                       for ri, ro in zip(x, xo) for ci, co in zip(ri, ro) for a, b in zip(ci, co))
            if swaps and same:
                return core.Violation(f"{case['kind']}/{case['mode']}/mode-ignored",
                                      f"mixup mode {case['mode']!r} is configured and the captured draws select a swap "
                                      'with a differing partner entry, but the features came back unchanged', case,
                                      'at least one swapped column / channel', 'input batch returned as is')
        if dr.get('perm') and sorted(dr['perm']) != list(range(B)):
            return core.Violation(f"{case['kind']}/perm", 'randperm did not return a permutation', case)
        if any(not (0.0 <= core.bits_float(r) <= 1.0) for r in dr.get('rates', [])):
            return core.Violation(f"{case['kind']}/beta", 'Beta sample outside [0,1]', case)
        conc = dr.get('conc')
        if conc is not None and abs(conc - case['beta']) > 1e-6 * (1 + abs(case['beta'])):
            return core.Violation(f"{case['kind']}/beta-parameter", 'the shuffle rates were drawn from a Beta distribution '
                                  'with another concentration than the beta the call / the model is configured with', case,
                                  case['beta'], conc)
        return None

    def nontrivial_key(self, case, real):
        if real == 'raises' or 'error' in real or case['B'] == 0:
            return None
        return core.stable_hash({k: v for k, v in case.items() if k not in ('draws', 'x_encoded')})

    def classify(self, case, real):
        labs = [f"kind:{case['kind']}", f"mode:{case['mode']}", f"B:{min(case['B'], 7)}", f"F:{min(case['F'], 6)}",
                f"D:{min(case['D'], 5)}", f"C:{min(case['C'], 5)}", f"dtype:{case['dtype']}",
                f"target:{case['y']['t'] if case['y'] else 'none'}",
                'outcome:raises' if real == 'raises' else 'outcome:ok']
        for what, v in (('batch', case['B']), ('columns', case['F']), ('channels', case['D']), ('classes', case['C'])):
            for th in (65537, 16385, 4097, 1025, 257, 17):
                if v >= th:
                    labs.append(f'scale:{what}:{th}+')
                    break
        if case.get('oracle_only'):
            labs.append('oracle-only')
        if case['y'] and case['y'].get('idt'):
            labs.append(f"dtype:target:{case['y']['idt']}")
        if case['y'] and case['y']['t'] == 'scalar' and case['y'].get('dtype') != case['dtype']:
            labs.append(f"dtype:target:{case['y'].get('dtype')}-with-{case['dtype']}-features")
        if case.get('mi_dtype') and case['mi_dtype'] != case['dtype']:
            labs.append(f"dtype:mi:{case['mi_dtype']}-with-{case['dtype']}-features")
        if case.get('xview'):
            labs.append(f"alias:x-is-a-view:{case['xview']}")
        if case.get('again'):
            labs.append('history:same-call-twice')
        if case['mi'] and max(case['mi']) > 100:
            labs.append('value:mi-unnormalised-magnitudes')
        if case['kind'] == 'fn' and any(v in (2.0 ** 127, -2.0 ** 127, 1e39, 1.7e308, 5e-324) or (v == 0 and math.copysign(1, v) < 0)
                                        for row in case['x'][:50] for col in row[:50] for v in col[:50]):
            labs.append('value:edge-magnitude-or-signed-zero')
        if case['kind'] == 'forward':
            hist = case.get('hist') or []
            ctor = case.get('ctor') or {}
            if ctor.get('mode', case['mode']) != case['mode']:
                labs.append(f"history:mixup-reassigned:{ctor['mode']}->{case['mode']}")
            if ctor.get('beta', case['beta']) != case['beta']:
                labs.append('history:beta-reassigned')
            for op in hist:
                labs.append('history:' + (op[0] if op[0] != 'call' else f"call:{'mixup' if op[1] else 'plain'}:{op[2]}"))
            if case.get('dropout') and any(case['dropout']):
                labs.append('config:dropout>0' + (':train' if any(h[0] == 'train' for h in hist) else ''))
        if real != 'raises' and 'error' not in real and case['B'] > 0 and case['mode'] != 'off':
            x = case['x'] if case['kind'] == 'fn' else \
                [[[core.bits_float(v) for v in col] for col in row] for row in case['x_encoded']]
            swapped = sum(1 for i in range(case['B']) if real['x'][i] != mixup.nest(x[i], mixup.canon_float))
            labs.append('rows-with-swapped-entries:' + ('0' if swapped == 0 else '>=1'))
            perm = (case.get('draws') or {}).get('perm') or []
            labs.append('perm-fixed-points:' + str(min(3, sum(1 for i, p in enumerate(perm) if i == p))))
        return labs


CHECK = C19()

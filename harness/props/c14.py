"""C14 - model inference is row-independent, deterministic, finite, uses every column."""
from harness import core, nngen

MODELS = ['mlp', 'resnet', 'ft', 'tabt', 'trompt', 'tabnet', 'excel']
TOL = 1e-9


# ---------------------------------------------------------------------------------- data and models

def make_frame(case):
    """a small materialized dataset (>= 2 columns per used stype, optional missing cells), in float64"""
    nngen.setup()
    import numpy as np
    import pandas as pd
    from torch_frame import TensorFrame, stype
    from torch_frame.data import Dataset
    r = np.random.RandomState(case['seed'] % (1 << 31))
    n = case['rows']
    cols, c2s = {}, {}
    for i in range(case['num']):
        cols[f'n{i}'] = r.randn(n) * (1 + i) + i
        c2s[f'n{i}'] = stype.numerical
    for i in range(case['cat']):
        k = 2 + i % 2
        v = r.randint(0, k, n)
        v[:k] = range(k)                      # every category occurs
        cols[f'c{i}'] = np.array([f'v{j}' for j in v], dtype=object)
        c2s[f'c{i}'] = stype.categorical
    cols['y'] = r.randn(n)
    c2s['y'] = stype.numerical
    df = pd.DataFrame(cols)
    if case['missing']:
        for name in list(cols)[:-1]:
            if r.rand() < 0.6:
                # (rows 0-2 keep one occurrence of every category, so no column degenerates to one value)
                df.loc[int(r.randint(3, n)), name] = None if name.startswith('c') else np.nan
    df = df.astype({c: object for c in cols if c.startswith('c')})
    ds = Dataset(df, c2s, target_col='y').materialize()
    tf = ds.tensor_frame
    fd = {k: (v.double() if v.is_floating_point() else v.clone()) for k, v in tf.feat_dict.items()}
    return ds, TensorFrame(fd, tf.col_names_dict, tf.y.double())


def make_model(case, ds, tf):
    torch = nngen.setup()
    from torch_frame.nn import MLP, ExcelFormer, FTTransformer, ResNet, TabNet, TabTransformer, Trompt
    kw = dict(col_stats=ds.col_stats, col_names_dict=tf.col_names_dict)
    k, ch, out, L = case['model'], case['channels'], case['out'], case['layers']
    torch.manual_seed(case['seed'])
    if k == 'mlp':
        m = MLP(ch, out, L, normalization=case['norm'], **kw)
    elif k == 'resnet':
        m = ResNet(ch, out, L, normalization=case['norm'], **kw)
    elif k == 'ft':
        m = FTTransformer(ch, out, L, **kw)
    elif k == 'tabt':
        m = TabTransformer(ch, out, L, case['heads'], case['pad'], 0.0, 0.0, **kw)
    elif k == 'trompt':
        m = Trompt(ch, out, case['prompts'], L, **kw)
    elif k == 'tabnet':
        m = TabNet(out, L, case['split_feat'], case['split_attn'], case['gamma'], cat_emb_channels=case['cat_emb'],
                   num_shared_glu_layers=case['shared'], num_dependent_glu_layers=case['dependent'], **kw)
    else:
        m = ExcelFormer(ch, out, case['num'], L, case['heads'], **kw)
    m = m.double()
    nngen.randomize_backbone(m, case['seed'] + 11)
    # a few optimizer steps so that the BatchNorm running statistics are those of training, not the initial ones
    if case['steps']:
        # (training on the missing cells themselves poisons the default encoders' weights with NaN - finding
        #  'encoder/nan-weights-after-training-on-missing', probed separately in extra_checks - so the training
        #  steps, and only they, see the missing cells filled)
        from torch_frame import TensorFrame
        tf = TensorFrame({k: (torch.nan_to_num(v, nan=0.0) if v.is_floating_point() else v.clamp(min=0))
                          for k, v in tf.feat_dict.items()}, tf.col_names_dict, tf.y)
        m.train()
        opt = torch.optim.SGD(m.parameters(), lr=0.02)
        g = torch.Generator().manual_seed(case['seed'] + 5)
        for _ in range(case['steps']):
            opt.zero_grad()
            o = m(tf)
            tgt = torch.randn(o.shape, generator=g, dtype=torch.float64)
            ((o - tgt) ** 2).mean().backward()
            opt.step()
    return m.eval()


def encoders_of(case, m):
    k = case['model']
    if k in ('mlp', 'resnet', 'ft'):
        return [m.encoder]
    if k == 'tabnet':
        return [m.feature_encoder]
    if k == 'excel':
        return [m.excelformer_encoder]
    if k == 'trompt':
        return list(m.encoders)
    out = []
    if hasattr(m, 'cat_encoder'):
        out.append(m.cat_encoder)
    if hasattr(m, 'num_encoder'):
        out.append(m.num_encoder)
    return out


def run_model(case, m, tf):
    """(output, [encoder outputs]) of one forward pass"""
    import torch
    seen = []
    hooks = [e.register_forward_hook(lambda mod, a, o: seen.append((o[0] if isinstance(o, tuple) else o).detach().clone()))
             for e in encoders_of(case, m)]
    try:
        with torch.no_grad():
            out = m(tf)
    finally:
        for h in hooks:
            h.remove()
    return out, seen


# ---------------------------------------------------------------------------------- state_dict export

def norm_p(mod):
    import torch
    if isinstance(mod, torch.nn.LayerNorm):
        return {'kind': 'layer', 'p': nngen.ln(mod)}
    if isinstance(mod, torch.nn.BatchNorm1d):
        return {'kind': 'batch', 'p': nngen.bn(mod)}
    return {'kind': 'none'}


def glu_p(mod):
    import torch
    if isinstance(mod, torch.nn.Identity):
        return None
    return {'layers': [nngen.lin(l.lin) for l in mod.glu_layers], 'noFirstResidual': bool(mod.no_first_residual)}


def export(case, m):
    import torch
    k = case['model']
    if k == 'mlp':
        mods = list(m.mlp)
        hidden, i = [], 0
        while i < len(mods) - 1:
            assert isinstance(mods[i], torch.nn.Linear)
            nrm = mods[i + 1] if isinstance(mods[i + 1], (torch.nn.LayerNorm, torch.nn.BatchNorm1d)) else None
            hidden.append({'lin': nngen.lin(mods[i]), 'norm': norm_p(nrm)})
            i += 1
            while not isinstance(mods[i], torch.nn.Linear):
                i += 1
        return {'hidden': hidden, 'out': nngen.lin(mods[-1]), 'channels': case['channels']}
    if k == 'resnet':
        return {'blocks': [{'lin1': nngen.lin(b.lin1), 'lin2': nngen.lin(b.lin2), 'norm1': norm_p(b.norm1),
                            'norm2': norm_p(b.norm2),
                            'shortcut': None if b.shortcut is None else nngen.lin(b.shortcut)} for b in m.backbone],
                'decNorm': nngen.ln(m.decoder[0]), 'decLin': nngen.lin(m.decoder[2])}
    if k == 'ft':
        return {'convs': nngen.ftconvs(m.backbone), 'decNorm': nngen.ln(m.decoder[0]), 'decLin': nngen.lin(m.decoder[2]),
                'channels': case['channels'], 'numCols': case['num'] + case['cat']}
    if k == 'tabt':
        has_cat, has_num = hasattr(m, 'cat_encoder'), hasattr(m, 'num_encoder')
        d = m.decoder
        return {'hasCat': has_cat, 'hasNum': has_num,
                'pad': nngen.enc(m.pad_embedding.weight) if has_cat else [],
                'convs': [nngen.tabtconv(c) for c in m.tab_transformer_convs] if has_cat else [],
                'numNorm': nngen.ln(m.num_norm) if has_num else {'w': [], 'b': [], 'eps': nngen.bits(1e-5)},
                'lin1': nngen.lin(d[0]), 'bn1': nngen.bn(d[1]), 'lin2': nngen.lin(d[3]), 'bn2': nngen.bn(d[4]),
                'lin3': nngen.lin(d[6]), 'channels': case['channels'], 'numCat': case['cat']}
    if k == 'trompt':
        return {'xPrompt': nngen.enc(m.x_prompt), 'convs': [nngen.tromptconv(c) for c in m.trompt_convs],
                'dec': nngen.tromptdec(m.trompt_decoder)}
    if k == 'tabnet':
        ft = m.feat_transformers
        return {'bn': nngen.bn(m.bn), 'shared': glu_p(ft[0].shared_glu_block), 'dep0': glu_p(ft[0].dependent),
                'steps': [{'lin': nngen.lin(a.lin), 'bn': nngen.bn(a.bn.bn), 'vbs': a.bn.virtual_batch_size,
                           'dep': glu_p(ft[i + 1].dependent)} for i, a in enumerate(m.attn_transformers)],
                'lin': nngen.lin(m.lin), 'splitFeat': m.split_feat_channels, 'gamma': nngen.bits(m.gamma)}
    return {'convs': [nngen.excelconv(c) for c in m.excelformer_convs], 'dec': nngen.exceldec(m.excelformer_decoder),
            'channels': case['channels'], 'numCols': case['num']}


# ---------------------------------------------------------------------------------- perturbations

def columns_of(tf):
    return [(st, j) for st in tf.stypes for j in range(len(tf.col_names_dict[st]))]


def perturbed(tf, ds, col, rows, seed, scale=1.0):
    """copy of `tf` in which column `col` (index into columns_of) is changed, generically, on `rows`"""
    import torch
    from torch_frame import TensorFrame, stype
    from torch_frame.data.stats import StatType
    st, j = columns_of(tf)[col]
    fd = {k: v.clone() for k, v in tf.feat_dict.items()}
    rows_t = torch.tensor(rows, dtype=torch.long)
    if st == stype.numerical:
        noise = nngen.randn((len(rows),), seed, scale=scale)
        old = torch.nan_to_num(fd[st][rows_t, j], nan=0.0)
        fd[st][rows_t, j] = old + noise + 0.5
    else:
        name = tf.col_names_dict[st][j]
        k = len(ds.col_stats[name][StatType.COUNT][0])
        old = fd[st][rows_t, j]
        fd[st][rows_t, j] = torch.where(old < 0, torch.zeros_like(old), (old + 1 + seed % max(k - 1, 1)) % k)
    return TensorFrame(fd, tf.col_names_dict, tf.y)


# ---------------------------------------------------------------------------------- known finding probe

PROBE_DF = {'a': [1.0, 2.0, None, 4.0], 'b': [0.5, -1.0, 2.0, 3.0], 'y': [0.0, 1.0, 0.0, 1.0]}


def probe_case(model):
    return {'probe': 'nan-training', 'model_class': model, 'df': PROBE_DF,
            'col_to_stype': {'a': 'numerical', 'b': 'numerical', 'y': 'numerical'}, 'target_col': 'y',
            'model_args': {'channels': 8, 'out_channels': 1, 'num_layers': 2, 'encoders': 'default'},
            'torch_manual_seed': 0, 'optimizer': 'SGD(lr=0.1)', 'loss': 'mse(model(tf).squeeze(1), tf.y)',
            'steps': 1, 'then': 'model.eval(); shift column a by +5 in every row'}


def run_probe(case):
    """one optimizer step on a frame with one missing numerical cell, default encoders; self-contained"""
    torch = nngen.setup()
    import numpy as np
    import pandas as pd
    import torch_frame.nn as tnn
    from torch_frame import TensorFrame, stype
    from torch_frame.data import Dataset
    df = pd.DataFrame({k: [np.nan if v is None else v for v in vs] for k, vs in case['df'].items()})
    ds = Dataset(df, {k: stype(v) for k, v in case['col_to_stype'].items()},
                 target_col=case['target_col']).materialize()
    tf = ds.tensor_frame
    torch.manual_seed(case['torch_manual_seed'])
    a = case['model_args']
    m = getattr(tnn, case['model_class'])(a['channels'], a['out_channels'], a['num_layers'], col_stats=ds.col_stats,
                                          col_names_dict=tf.col_names_dict)
    opt = torch.optim.SGD(m.parameters(), lr=0.1)
    m.train()
    for _ in range(case['steps']):
        opt.zero_grad()
        ((m(tf).squeeze(1) - tf.y) ** 2).mean().backward()
        opt.step()
    m.eval()
    w = m.encoder.encoder_dict['numerical'].weight
    with torch.no_grad():
        x, _ = m.encoder(tf)
        f = tf.feat_dict[stype.numerical].clone()
        f[:, 0] += 5.0
        tf2 = TensorFrame({stype.numerical: f}, tf.col_names_dict, tf.y)
        change = (m(tf2) - m(tf)).abs().max().item()
        finite = bool(torch.isfinite(m(tf)).all())
    return {'probe': 'nan-training', 'weight_row_of_column_a_is_nan': bool(torch.isnan(w[0]).all()),
            'weight_row_of_column_b_is_finite': bool(torch.isfinite(w[1]).all()),
            'embedding_of_column_a_all_zero': bool((x[:, 0] == 0).all()),
            'prediction_change_when_column_a_shifts': change, 'prediction_finite': finite}


class C14(core.Check):
    pid = 'C14'
    driver = 'drv_c14'
    quick_cases = 420
    thorough_cases = 2800
    rule = ('one case = one zoo model (MLP, ResNet, FTTransformer, TabTransformer, Trompt, TabNet, ExcelFormer; round '
            'robin) on a fresh materialized dataset (6-10 rows, 2-3 numerical and 2-3 categorical columns, optional '
            'missing cells; ExcelFormer: numerical only; TabTransformer also with one stype only), random '
            'hyper-parameters (channels 4-8, layers 1-2, normalization none/layer/batch, heads 1-2, prompts 2/4, TabNet '
            'split sizes 2-3 and 0-2 shared/dependent GLU layers), generic random backbone parameters, 0-3 SGD steps in '
            'training mode (non-trivial running statistics), then float64 eval; a batch composition tf[idx] '
            '(permutation, duplicates, subset, single row, empty, all rows; one 520-row TabNet batch per run, more in '
            'thorough); the Lean model receives the output of the real encoder(s) for that batch (forward hook) and '
            'the exported state_dict; non-trivial = non-empty batch; distinct = distinct case hash')
    partial_notes = (
        '"every column can influence the prediction" is an existence claim about generic parameters: the structural '
        'half is encoder_drops_no_column, the numeric half is checked on the real models (generic perturbation of '
        'one column, all rows, three draws)',
        'the stype-wise encoder itself is outside this model (its per-cell / row-wise behaviour is C13); the model '
        'starts at the encoder output captured from the real forward pass',
        'determinism and finiteness are checked on the real models; float round-off and overflow are outside the model',
        'train-mode BatchNorm appears only as the counter-example bn_train_not_rowwise',
    )
    assumptions = (
        'PyTorch primitives (Linear, LayerNorm, BatchNorm1d eval, GroupNorm, GLU, SELU, PReLU, softmax, '
        'TransformerEncoderLayer, torch.chunk) modelled from their documentation; validated numerically on every run',
        'Lean Float and PyTorch float64 are IEEE-754 doubles whose exp/tanh/sqrt agree to 1e-9; erf is a series in '
        'the driver',
        'the fused nn.TransformerEncoder fast path is disabled in the harness process',
    )

    # ------------------------------------------------------------------ generation
    def generate(self, rng, n, tier):
        big_left = 1 if tier == 'quick' else 12
        for i in range(n):
            k = MODELS[i % len(MODELS)]
            rows = rng.randint(6, 10)
            case = {'model': k, 'seed': rng.randrange(1 << 30), 'rows': rows, 'num': rng.randint(2, 3),
                    'cat': rng.randint(2, 3), 'missing': rng.random() < 0.7, 'out': rng.randint(1, 3),
                    'layers': rng.choice([1, 2]), 'steps': rng.choice([0, 1, 2, 3]),
                    'channels': rng.choice([4, 5, 6, 8])}
            if k == 'excel':
                case['cat'] = 0
                case['num'] = rng.randint(2, 4)
                case['heads'] = rng.choice([1, 2])
                case['channels'] = case['heads'] * rng.choice([2, 3, 4])
            if k in ('mlp', 'resnet'):
                case['norm'] = rng.choice([None, 'layer_norm', 'batch_norm', 'batch_norm'])
            if k == 'ft':
                case['channels'] = 8                      # FTTransformer fixes nhead = 8
                case['layers'] = rng.choice([1, 1, 2])
            if k == 'tabt':
                case['heads'] = rng.choice([1, 2])
                case['pad'] = rng.choice([1, 2])
                case['channels'] = case['heads'] * rng.choice([2, 3]) + (0 if case['heads'] == 2 else 1)
                if case['channels'] % case['heads']:
                    case['channels'] += 1
                only = rng.random()
                if only < 0.12:
                    case['cat'] = 0
                elif only < 0.24:
                    case['num'] = 0
            if k == 'trompt':
                case['prompts'] = rng.choice([2, 4])
                case['channels'] = rng.choice([4, 5, 6])
            if k == 'tabnet':
                case.update(split_feat=rng.randint(2, 3), split_attn=rng.randint(2, 3),
                            gamma=rng.choice([1.0, 1.2, 1.5]), cat_emb=rng.choice([1, 2]),
                            shared=rng.choice([0, 1, 2]), dependent=rng.choice([0, 1, 2]))
                if case['shared'] == 0 and case['dependent'] == 0:
                    case['dependent'] = 1
            ikind, idx = nngen.gen_idx(rng, rows)
            if k == 'tabnet' and big_left > 0:
                big_left -= 1
                ikind, idx = 'big520', [rng.randrange(rows) for _ in range(520)]
            case['idx_kind'], case['idx'] = ikind, idx
            case['row'] = rng.randrange(rows)
            case['col'] = rng.randrange(case['num'] + case['cat'])
            yield case

    # ------------------------------------------------------------------ real code
    def _run(self, case):
        torch = nngen.setup()
        ds, tf = make_frame(case)
        m = make_model(case, ds, tf)
        st = {'ds': ds, 'tf': tf, 'm': m}
        try:
            out, enc = run_model(case, m, tf[case['idx']] if case['idx'] else tf[torch.tensor([], dtype=torch.long)])
            st['out'], st['enc'] = out, enc
        except Exception as e:  # noqa
            st['out'], st['exc'] = None, f'{type(e).__name__}: {e}'
        self._stash = (core.stable_hash(case), st)
        return st

    def _state(self, case):
        st = getattr(self, '_stash', None)
        if st is None or st[0] != core.stable_hash(case):
            return self._run(case)
        return st[1]

    def real(self, case):
        if 'probe' in case:
            return run_probe(case)
        st = self._run(case)
        if st['out'] is None:
            return 'raises'
        return st['out'].tolist()

    # ------------------------------------------------------------------ model
    def model_requests(self, case):
        if 'probe' in case:
            return []
        st = self._state(case)
        if st['out'] is None:
            return []
        k = case['model']
        req = {'cmd': k, 'p': export(case, st['m'])}
        enc = [nngen.enc(e) for e in st['enc']]
        if k == 'trompt':
            req['xs'] = enc
        elif k == 'tabt':
            has_cat = hasattr(st['m'], 'cat_encoder')
            has_num = hasattr(st['m'], 'num_encoder')
            req['xcat'] = enc[0] if has_cat else []
            req['xnum'] = enc[-1] if has_num else []
        else:
            req['x'] = enc[0]
        return [req]

    def model_outcome(self, case, replies):
        if 'probe' in case:
            return 'probe-not-modelled'
        if not replies:
            return 'raises'
        return nngen.dec(replies[0])

    def equal(self, a, b):
        if b == 'probe-not-modelled':
            return True
        return nngen.tol_equal(a, b)

    # ------------------------------------------------------------------ direct oracle on the real models
    def oracle(self, case, real_outcome):
        import torch
        if 'probe' in case:
            r = real_outcome
            if r['weight_row_of_column_a_is_nan'] and r['prediction_change_when_column_a_shifts'] == 0.0:
                return core.Violation(
                    'encoder/nan-weights-after-training-on-missing',
                    f"{case['model_class']}: one optimizer step on a frame with one missing numerical cell (default "
                    "LinearEncoder, na_strategy=None) makes the column's weight row NaN; afterwards the column "
                    'cannot influence any prediction', case,
                    'finite encoder weights; shifting column a changes the prediction', r)
            return None
        st = self._state(case)
        k, m, tf, ds = case['model'], st['m'], st['tf'], st['ds']

        def V(what, exp=None, act=None):
            return core.Violation(f'{k}/{what}', f'{k}: {what}', case, exp, act)

        if st['out'] is None:
            return V('raises', 'a prediction', st.get('exc'))
        out = st['out']
        B = len(case['idx'])
        want = (B, case['layers'], case['out']) if k == 'trompt' else (B, case['out'])
        if tuple(out.shape) != want:
            return V('shape', want, tuple(out.shape))
        if not bool(torch.isfinite(out).all()):
            return V('non-finite prediction')
        idx = torch.tensor(case['idx'], dtype=torch.long)
        with torch.no_grad():
            again = m(tf[idx])
            if not torch.equal(again, out):
                return V('non-deterministic')
            full = m(tf)
        if not bool(torch.isfinite(full).all()):
            return V('non-finite prediction')
        dev = nngen.max_dev(out, full[idx])
        if dev > TOL:
            return V('not-row-independent', 'model(tf[idx]) == model(tf)[idx]', f'max deviation {dev:.3e}')
        # changing one row changes only that row's prediction
        r = case['row']
        with torch.no_grad():
            o2 = m(perturbed(tf, ds, case['col'], [r], case['seed'] + 3))
        keep = [i for i in range(len(tf)) if i != r]
        dev = nngen.max_dev(o2[keep], full[keep])
        if dev > TOL:
            return V('row-perturbation-leaks', f'only row {r} changes', f'other rows deviate by {dev:.3e}')
        # every column can influence the prediction
        changed = False
        for t in range(3):
            with torch.no_grad():
                o3 = m(perturbed(tf, ds, case['col'], list(range(len(tf))), case['seed'] + 17 + t, scale=1.0 + t))
            if nngen.max_dev(o3, full) > 0.0:
                changed = True
                break
        if not changed:
            # an existence claim about *generic* parameters: if the drawn parameter state ignores its whole
            # input (all ReLU units dead), no column can matter and the case says nothing about the code
            tfa = tf
            for c in range(len(columns_of(tf))):
                tfa = perturbed(tfa, ds, c, list(range(len(tf))), case['seed'] + 31 + c, scale=3.0)
            with torch.no_grad():
                dead = nngen.max_dev(m(tfa), full) == 0.0
            if dead:
                self._dead = getattr(self, '_dead', 0) + 1
                return None
            return V('column-without-influence', f'perturbing column {case["col"]} changes some prediction', 'no change')
        return None

    def extra_checks(self, rng, tier, report):
        """deterministic reproduction of the recorded finding (training on missing cells poisons the default
        encoders); reported under its own key so that any other loss of influence stays a fresh violation"""
        seen = {}
        for model in ('MLP', 'ResNet', 'FTTransformer'):
            case = probe_case(model)
            r = run_probe(case)
            seen[model] = r
            v = self.oracle(case, r)
            if v is not None:
                report['violations'].append(v)
        report['extra']['nan_training_probe'] = seen
        report['extra']['input_insensitive_parameter_states_skipped'] = getattr(self, '_dead', 0)

    def nontrivial_key(self, case, r):
        if 'probe' in case:
            return None
        if r == 'raises' or not case['idx']:
            return None
        return core.stable_hash(case)

    def classify(self, case, r):
        if 'probe' in case:
            return ['probe']
        labs = [f"model:{case['model']}", f"compose:{case['idx_kind']}", f"batch:{min(len(case['idx']), 11)}",
                f"steps:{case['steps']}", f"missing:{case['missing']}", f"layers:{case['layers']}",
                'outcome:raises' if r == 'raises' else 'outcome:ok']
        if 'norm' in case:
            labs.append(f"norm:{case['model']}/{case['norm']}")
        if case['model'] == 'tabt':
            labs.append(f"tabt-branches:cat{min(case['cat'], 1)}num{min(case['num'], 1)}")
        if case['model'] == 'tabnet':
            labs.append(f"tabnet-glu:shared{case['shared']}dep{case['dependent']}")
        return labs


CHECK = C14()

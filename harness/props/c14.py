"""C14 - model inference is row-independent, deterministic, finite, uses every column."""
from harness import core, nngen

MODELS = ['mlp', 'resnet', 'ft', 'tabt', 'trompt', 'tabnet', 'excel']
TOL = 1e-9


# ---------------------------------------------------------------------------------- data and models

EXTRA_MODELS = ('mlp', 'resnet', 'ft', 'trompt', 'tabnet')     # models that take a stype_encoder_dict for any stype
TS_FMT = '%Y-%m-%d %H:%M:%S'


def empty_rows(case):
    """rows whose multicategorical cells are EMPTY lists (no item - not the missing marker) in every such column"""
    n, pat = case['rows'], case.get('empty')
    rows = {None: [], 'none': [], 'first': [0], 'middle': [n // 2], 'last': [n - 1], 'last2': [n - 2, n - 1],
            'last3': [n - 3, n - 2, n - 1], 'first+last': [0, n - 1], 'all-but-one': [i for i in range(n) if i != n // 2],
            'all': list(range(n)), 'random': [i for i in range(n) if (case['seed'] >> (i % 24)) & 1 and i != case['seed'] % n]}[pat]
    return sorted({q for q in rows if 0 <= q < n})


def feature_names(case):
    return ([f'n{i}' for i in range(case['num'])] + [f'c{i}' for i in range(case['cat'])] +
            [f'm{i}' for i in range(case.get('mc', 0))] + [f't{i}' for i in range(case.get('ts', 0))] +
            [f'e{i}' for i in range(case.get('emb', 0))])


def make_frame(case):
    """a small materialized dataset (>= 2 columns per used stype, optional missing cells), in float64; the scale
    family makes it long (rows), wide (columns) or gives one categorical column many categories (`bigcat`);
    `mc` / `ts` / `emb` add multicategorical (with EMPTY cells in the rows `empty_rows`), timestamp and embedding
    columns; `const` makes some columns constant / nearly constant over the first T rows (the rows the long training
    runs on) while they vary in the later rows"""
    nngen.setup()
    import numpy as np
    import pandas as pd
    from torch_frame import TensorFrame, stype
    from torch_frame.data import Dataset, MultiEmbeddingTensor
    r = np.random.RandomState(case['seed'] % (1 << 31))
    n = case['rows']
    cols, c2s = {}, {}
    for i in range(case['num']):
        cols[f'n{i}'] = r.randn(n) * (1 + i % 7) + i % 11
        c2s[f'n{i}'] = stype.numerical
    for i in range(case['cat']):
        k = 2 + i % 2
        if i == 0 and case.get('bigcat'):
            k = min(case['bigcat'], n)
        v = r.randint(0, k, n)
        v[:k] = range(k)                      # every category occurs
        cols[f'c{i}'] = np.array([f'v{j}' for j in v], dtype=object)
        c2s[f'c{i}'] = stype.categorical
    cols['y'] = r.randn(n)
    c2s['y'] = stype.numerical
    kw = {}
    full = None
    if case.get('mc'):
        er = set(empty_rows(case))
        full = min(q for q in range(n + 1) if q not in er) if len(er) < n else None
        for i in range(case['mc']):
            voc = [f'k{j}' for j in range(2 + (i + case['seed']) % 3)]
            cells = []
            for q in range(n):
                if q in er:
                    cells.append('')
                elif q == full:
                    cells.append(','.join(voc))                  # every token occurs
                else:
                    cells.append(','.join(r.permutation(voc)[:r.randint(1, len(voc) + 1)]))
            cols[f'm{i}'] = np.array(cells, dtype=object)
            c2s[f'm{i}'] = stype.multicategorical
        kw['col_to_sep'] = ','
    if case.get('ts'):
        for i in range(case['ts']):
            cols[f't{i}'] = np.array(['%04d-%02d-%02d %02d:%02d:%02d' % (r.randint(1995, 2026), r.randint(1, 13), r.randint(1, 29),
                                                                          r.randint(0, 24), r.randint(0, 60), r.randint(0, 60))
                                      for _ in range(n)], dtype=object)
            c2s[f't{i}'] = stype.timestamp
        kw['col_to_time_format'] = TS_FMT
    for i in range(case.get('emb', 0)):
        w = 1 + (i + case['seed']) % 3
        ser = pd.Series([None] * n, dtype=object)
        for q in range(n):
            ser.iloc[q] = [float(x) for x in r.randn(w)]
        cols[f'e{i}'] = ser
        c2s[f'e{i}'] = stype.embedding
    const = case.get('const')
    if const:
        T = const['T']
        for name, kind in const['cols'].items():
            if name.startswith('n'):
                v = cols[name]
                c = 0.0 if kind == 'zero' else float(v[0])
                noise = {'const': 0.0, 'zero': 0.0, 'near': 1e-3, 'tiny': 1e-7}[kind]
                v[:T] = c + noise * r.randn(T)
                # (the later rows deviate from the training value by their own spread times `dev`)
                v[T:] = c + const.get('dev', {}).get(name, 1.0) * (v[T:] - c)
            else:
                v = cols[name]
                keep = list(v[:T])
                v[:T] = v[0]
                # (every category still occurs - in the later rows)
                for q, x in enumerate(keep):
                    if T + q < n:
                        v[T + q] = x
    df = pd.DataFrame(cols)
    if case['missing']:
        for name in [c for c in cols if c != 'y']:
            if r.rand() < 0.6:
                lo0 = const['T'] if const and name in const['cols'] else 3
                if lo0 >= n:
                    continue
                miss = np.nan if name.startswith('n') else None
                # (rows 0-2 keep one occurrence of every category, so no column degenerates to one value)
                keep = full if name[0] == 'm' else None      # (the row that holds the whole token vocabulary stays)
                q = int(r.randint(lo0, n))
                if q != keep:
                    df.at[q, name] = miss
                if n > 16:                    # long frames: missing cells all over the column, not just one
                    lo = min(case.get('bigcat', 3), n - 1) if name == 'c0' else lo0
                    for q in r.randint(lo, n, max(1, n // 9)):
                        if int(q) != keep:
                            df.at[int(q), name] = miss
    df = df.astype({c: object for c in cols if c[0] in 'cmt'})
    ds = Dataset(df, c2s, target_col='y', **kw).materialize()
    tf = ds.tensor_frame
    import torch
    bd = case.get('block_dtype') or {}
    # family 3: float32 numbers (as the mapper emits them) under float64 parameters / int32 category indices
    fd = {}
    for k, v in tf.feat_dict.items():
        if k == stype.numerical:
            fd[k] = v if bd.get('num') == 'f32' else v.double()
        elif k == stype.categorical:
            fd[k] = v.to(torch.int32) if bd.get('cat') == 'i32' else v.clone()
        elif k == stype.embedding:
            fd[k] = MultiEmbeddingTensor(v.num_rows, v.num_cols, v.values.double(), v.offset)
        else:
            fd[k] = v.clone()
    return ds, TensorFrame(fd, tf.col_names_dict, tf.y.double())


def encoder_dict(case, which=0):
    """family 6: encoder options off the default (None = the model's own default encoders).  Fresh encoder
    objects on every call (an encoder object belongs to one model).  Frames with multicategorical / timestamp /
    embedding columns always need an explicit dict (option 'plain' = the usual encoder of every stype)."""
    opt = case.get('enc')
    extras = [k_ for k_ in ('mc', 'ts', 'emb') if case.get(k_)]
    if not opt and not extras:
        return None
    opt = opt or 'plain'
    from torch_frame import NAStrategy, stype
    from torch_frame.nn import encoder as E
    k = case['model']
    num = {'na': lambda: E.LinearEncoder(na_strategy=NAStrategy.MEAN),
           'periodic': lambda: E.LinearPeriodicEncoder(n_bins=3, na_strategy=NAStrategy.ZEROS),
           'extra-keys': lambda: E.LinearEncoder(), 'plain': lambda: E.LinearEncoder()}[opt]
    if k == 'excel':
        num = lambda: E.ExcelFormerEncoder(case['channels'], na_strategy=NAStrategy.ZEROS if opt == 'na' else NAStrategy.MEAN)  # noqa
    if k == 'tabnet':
        num = lambda: E.StackEncoder(na_strategy=NAStrategy.MEAN if opt == 'na' else None)  # noqa
    cat = (lambda: E.EmbeddingEncoder(na_strategy=NAStrategy.MOST_FREQUENT)) if opt == 'na' else (lambda: E.EmbeddingEncoder())
    d = {stype.numerical: num()} if k == 'excel' else {stype.categorical: cat(), stype.numerical: num()}
    more = {}
    if case.get('mc') or opt == 'extra-keys':
        more[stype.multicategorical] = E.MultiCategoricalEmbeddingEncoder(
            mode=case.get('bag_mode', 'mean'), na_strategy=NAStrategy.ZEROS if opt == 'na' and case.get('mc') else None)
    if case.get('ts') or opt == 'extra-keys':
        more[stype.timestamp] = E.TimestampEncoder(
            na_strategy=NAStrategy.MEDIAN_TIMESTAMP if opt == 'na' and case.get('ts') else None)
    if case.get('emb') or opt == 'extra-keys':
        more[stype.embedding] = E.LinearEmbeddingEncoder()
    if opt == 'extra-keys':
        # keys for stypes the dataset does not have (admissible pairings), listed first
        d = {**{k_: more[k_] for k_ in (stype.timestamp, stype.embedding, stype.multicategorical)}, **d}
    else:
        d.update(more)
    return d


def construct(case, ds, tf, drop=True):
    """the zoo model as its constructor leaves it (float64); drop=False: the same configuration with every
    dropout rate set to zero"""
    torch = nngen.setup()
    from torch_frame.nn import MLP, ExcelFormer, FTTransformer, ResNet, TabNet, TabTransformer, Trompt
    kw = dict(col_stats=ds.col_stats, col_names_dict=tf.col_names_dict)
    k, ch, out, L = case['model'], case['channels'], case['out'], case['layers']
    d = (case.get('drop') or {}) if drop else {kk: 0.0 for kk in (case.get('drop') or {})}
    if (case.get('enc') or case.get('mc') or case.get('ts') or case.get('emb')) and k != 'tabt':
        if k == 'trompt':
            kw['stype_encoder_dicts'] = [encoder_dict(case, i) for i in range(L)]
        else:
            kw['stype_encoder_dict'] = encoder_dict(case)
    if k == 'mlp':
        m = MLP(ch, out, L, normalization=case['norm'], **({'dropout_prob': d['p']} if 'p' in d else {}), **kw)
    elif k == 'resnet':
        m = ResNet(ch, out, L, normalization=case['norm'], **({'dropout_prob': d['p']} if 'p' in d else {}), **kw)
    elif k == 'ft':
        m = FTTransformer(ch, out, L, **kw)
    elif k == 'tabt':
        m = TabTransformer(ch, out, L, case['heads'], case['pad'], d.get('attn', 0.0), d.get('ffn', 0.0), **kw)
    elif k == 'trompt':
        m = Trompt(ch, out, case['prompts'], L, **kw)
    elif k == 'tabnet':
        m = TabNet(out, L, case['split_feat'], case['split_attn'], case['gamma'], cat_emb_channels=case['cat_emb'],
                   num_shared_glu_layers=case['shared'], num_dependent_glu_layers=case['dependent'], **kw)
    else:
        m = ExcelFormer(ch, out, case['num'], L, case['heads'], diam_dropout=d.get('diam', 0.0),
                        aium_dropout=d.get('aium', 0.0), residual_dropout=d.get('residual', 0.0),
                        **({'mixup': case['mixup']} if case.get('mixup') else {}), **kw)
    return m.double()


def select(tf, idx):
    import torch
    return tf[idx] if idx else tf[torch.tensor([], dtype=torch.long)]


def filled(tf):
    """the frame with every missing cell filled by a legal value (training input only)"""
    import torch
    from torch_frame import TensorFrame, stype
    from torch_frame.data import MultiEmbeddingTensor
    fd = {}
    for k, v in tf.feat_dict.items():
        if k == stype.timestamp:
            v = v.clone()
            for j in range(v.shape[1]):
                bad = (v[:, j] < 0).any(dim=-1)
                if bool(bad.any()) and not bool(bad.all()):
                    v[bad, j] = v[(~bad).nonzero()[0, 0], j].clone()
            fd[k] = v
        elif k == stype.embedding:
            fd[k] = MultiEmbeddingTensor(v.num_rows, v.num_cols, torch.nan_to_num(v.values, nan=0.0), v.offset)
        elif k == stype.multicategorical:
            fd[k] = v                     # (the missing marker -1 addresses the padding row: no gradient, no NaN)
        else:
            fd[k] = torch.nan_to_num(v, nan=0.0) if v.is_floating_point() else v.clamp(min=0)
    return TensorFrame(fd, tf.col_names_dict, tf.y)


def train_steps(case, m, tf, steps, gseed):
    """optimizer steps so that the BatchNorm running statistics are those of training, not the initial ones; the long
    training family (`const`) runs a few hundred steps on the first T rows, where some columns are constant"""
    torch = nngen.setup()
    # (training on the missing cells themselves poisons the default encoders' weights with NaN - finding
    #  'encoder/nan-weights-after-training-on-missing', probed separately in extra_checks - so the training
    #  steps, and only they, see the missing cells filled)
    tf = filled(tf)
    if case.get('const'):
        tf = tf[:case['const']['T']]
    elif len(tf) > 64:
        tf = tf[:64]                       # (the running statistics of 64 rows are as non-trivial as those of 4 000)
    m.train()
    opt = torch.optim.SGD(m.parameters(), lr=0.02)
    g = torch.Generator().manual_seed(gseed)
    for _ in range(steps):
        opt.zero_grad()
        o = m(tf)
        tgt = torch.randn(o.shape, generator=g, dtype=torch.float64)
        ((o - tgt) ** 2).mean().backward()
        torch.nn.utils.clip_grad_norm_(m.parameters(), 5.0)     # (dropout 0.9 in training mode scales gradients up)
        opt.step()


def history_call(case, m, tf, h):
    """one earlier call on the same model object (family 5); evaluation mode unless stated"""
    torch = nngen.setup()
    with torch.no_grad():
        if h == 'batch':                   # the very batch (hence the batch size) that is measured later
            m(select(tf, case['idx']))
        elif h == 'full':
            m(tf)
        elif h == 'one':
            m(tf[[case['row']]])
        elif h == 'empty':
            m(select(tf, []))
        elif h == 'train_fwd':             # a training-mode call without an optimizer step
            if len(tf) > 1:
                m.train()
                m(tf[:64])
                m.eval()
        elif h == 'train_eval':
            m.train()
            m.eval()
        elif h == 'reset':                 # reset_parameters(), then a generic parameter draw again
            torch.manual_seed(case['seed'] + 3)
            m.reset_parameters()
            nngen.randomize_backbone(m, case['seed'] + 13)
        else:
            raise ValueError(h)


def make_model(case, ds, tf, pseed=None, steps=None):
    """the model in the parameter state the case describes:
    construct -> generic random backbone parameters -> [evaluation-mode calls `pre`] -> 0..k SGD steps in training
    mode -> eval() -> [calls `post` on the same object].  `pseed` re-draws every parameter (same configuration)."""
    torch = nngen.setup()
    seed = case['seed'] if pseed is None else pseed
    torch.manual_seed(seed)
    m = construct(case, ds, tf)
    nngen.randomize_backbone(m, seed + 11)
    m.eval()
    if pseed is None:
        for h in case.get('pre', []):
            history_call(case, m, tf, h)
    steps = case['steps'] if steps is None else steps
    if steps:
        train_steps(case, m, tf, steps, seed + 5)
    m.eval()
    if pseed is None:
        for h in case.get('post', []):
            history_call(case, m, tf, h)
    return m.eval()


def encoders_of(case, m):
    k = case['model']
    if k in ('mlp', 'resnet', 'ft'):
        return [m.encoder]
    if k == 'tabnet':
        return [m.feature_encoder]
    if k == 'excel':
        return [m.excelformer_encoder]
    if k == 'trompt':
        return list(m.encoders)
    out = []
    if hasattr(m, 'cat_encoder'):
        out.append(m.cat_encoder)
    if hasattr(m, 'num_encoder'):
        out.append(m.num_encoder)
    return out


def run_model(case, m, tf, logits=None):
    """(output, [encoder outputs]) of one forward pass; `logits` (a list) collects the largest |argument| handed to
    the softmax of TabNet's attentive transformers"""
    import torch
    seen = []
    hooks = [e.register_forward_hook(lambda mod, a, o: seen.append((o[0] if isinstance(o, tuple) else o).detach().clone()))
             for e in encoders_of(case, m)]
    if logits is not None and case['model'] == 'tabnet':
        def grab(mod, a, o):
            x, prior = a
            if len(x):
                logits.append(float((prior * mod.bn(mod.lin(x))).abs().max()))
        hooks += [a.register_forward_hook(grab) for a in m.attn_transformers]
    try:
        with torch.no_grad():
            out = m(tf)
    finally:
        for h in hooks:
            h.remove()
    return out, seen


# ---------------------------------------------------------------------------------- state_dict export

def norm_p(mod):
    import torch
    if isinstance(mod, torch.nn.LayerNorm):
        return {'kind': 'layer', 'p': nngen.ln(mod)}
    if isinstance(mod, torch.nn.BatchNorm1d):
        return {'kind': 'batch', 'p': nngen.bn(mod)}
    return {'kind': 'none'}


def glu_p(mod):
    import torch
    if isinstance(mod, torch.nn.Identity):
        return None
    return {'layers': [nngen.lin(l.lin) for l in mod.glu_layers], 'noFirstResidual': bool(mod.no_first_residual)}


def export(case, m):
    import torch
    k = case['model']
    if k == 'mlp':
        mods = list(m.mlp)
        hidden, i = [], 0
        while i < len(mods) - 1:
            assert isinstance(mods[i], torch.nn.Linear)
            nrm = mods[i + 1] if isinstance(mods[i + 1], (torch.nn.LayerNorm, torch.nn.BatchNorm1d)) else None
            hidden.append({'lin': nngen.lin(mods[i]), 'norm': norm_p(nrm)})
            i += 1
            while not isinstance(mods[i], torch.nn.Linear):
                i += 1
        return {'hidden': hidden, 'out': nngen.lin(mods[-1]), 'channels': case['channels']}
    if k == 'resnet':
        return {'blocks': [{'lin1': nngen.lin(b.lin1), 'lin2': nngen.lin(b.lin2), 'norm1': norm_p(b.norm1),
                            'norm2': norm_p(b.norm2),
                            'shortcut': None if b.shortcut is None else nngen.lin(b.shortcut)} for b in m.backbone],
                'decNorm': nngen.ln(m.decoder[0]), 'decLin': nngen.lin(m.decoder[2])}
    if k == 'ft':
        return {'convs': nngen.ftconvs(m.backbone), 'decNorm': nngen.ln(m.decoder[0]), 'decLin': nngen.lin(m.decoder[2]),
                'channels': case['channels'], 'numCols': len(feature_names(case))}
    if k == 'tabt':
        has_cat, has_num = hasattr(m, 'cat_encoder'), hasattr(m, 'num_encoder')
        d = m.decoder
        return {'hasCat': has_cat, 'hasNum': has_num,
                'pad': nngen.enc(m.pad_embedding.weight) if has_cat else [],
                'convs': [nngen.tabtconv(c) for c in m.tab_transformer_convs] if has_cat else [],
                'numNorm': nngen.ln(m.num_norm) if has_num else {'w': [], 'b': [], 'eps': nngen.bits(1e-5)},
                'lin1': nngen.lin(d[0]), 'bn1': nngen.bn(d[1]), 'lin2': nngen.lin(d[3]), 'bn2': nngen.bn(d[4]),
                'lin3': nngen.lin(d[6]), 'channels': case['channels'], 'numCat': case['cat']}
    if k == 'trompt':
        return {'xPrompt': nngen.enc(m.x_prompt), 'convs': [nngen.tromptconv(c) for c in m.trompt_convs],
                'dec': nngen.tromptdec(m.trompt_decoder)}
    if k == 'tabnet':
        ft = m.feat_transformers
        return {'bn': nngen.bn(m.bn), 'shared': glu_p(ft[0].shared_glu_block), 'dep0': glu_p(ft[0].dependent),
                'steps': [{'lin': nngen.lin(a.lin), 'bn': nngen.bn(a.bn.bn), 'vbs': a.bn.virtual_batch_size,
                           'dep': glu_p(ft[i + 1].dependent)} for i, a in enumerate(m.attn_transformers)],
                'lin': nngen.lin(m.lin), 'splitFeat': m.split_feat_channels, 'gamma': nngen.bits(m.gamma)}
    return {'convs': [nngen.excelconv(c) for c in m.excelformer_convs], 'dec': nngen.exceldec(m.excelformer_decoder),
            'channels': case['channels'], 'numCols': case['num']}


# ---------------------------------------------------------------------------------- perturbations

def columns_of(tf):
    return [(st, j) for st in tf.stypes for j in range(len(tf.col_names_dict[st]))]


def perturbed(tf, ds, col, rows, seed, scale=1.0):
    """copy of `tf` in which column `col` (index into columns_of) is changed, generically, on `rows`"""
    import torch
    from torch_frame import TensorFrame, stype
    from torch_frame.data import MultiEmbeddingTensor, MultiNestedTensor
    from torch_frame.data.stats import StatType
    st, j = columns_of(tf)[col]
    fd = {k: v.clone() for k, v in tf.feat_dict.items()}
    rows_t = torch.tensor(rows, dtype=torch.long)
    name = tf.col_names_dict[st][j]
    if st == stype.numerical:
        noise = nngen.randn((len(rows),), seed, scale=scale)
        old = torch.nan_to_num(fd[st][rows_t, j], nan=0.0)
        fd[st][rows_t, j] = (old + noise + 0.5).to(fd[st].dtype)
    elif st == stype.categorical:
        k = len(ds.col_stats[name][StatType.COUNT][0])
        old = fd[st][rows_t, j]
        fd[st][rows_t, j] = torch.where(old < 0, torch.zeros_like(old), (old + 1 + seed % max(k - 1, 1)) % k)
    elif st == stype.multicategorical:
        # another list of fitted tokens in the cell: an empty / missing cell gets one, others lose or gain one
        k = max(len(ds.col_stats[name][StatType.MULTI_COUNT][0]), 1)
        feat = tf.feat_dict[st]
        vals, off = feat.values.tolist(), feat.offset.tolist()
        R, C = feat.num_rows, feat.num_cols
        cells = [[vals[off[r * C + c]:off[r * C + c + 1]] for c in range(C)] for r in range(R)]
        for q, r in enumerate(rows):
            cell = [v for v in cells[r][j] if v >= 0]
            if not cell:
                cell = [(seed + q) % k]
            elif len(cell) < k and (seed + q) % 2:
                cell = cell + [min(v for v in range(k) if v not in cell)]
            else:
                cell = cell[:-1]
            cells[r][j] = cell
        fd[st] = MultiNestedTensor.from_tensor_mat([[torch.tensor(c, dtype=torch.long) for c in row] for row in cells])
    elif st == stype.timestamp:
        f = fd[st]
        ok = (~(f[:, j] < 0).any(dim=-1)).nonzero()
        for q, r in enumerate(rows):
            if bool((f[r, j] < 0).any()):
                if len(ok) == 0:
                    continue
                f[r, j] = f[ok[0, 0], j].clone()
            f[r, j, 4] = (f[r, j, 4] + 1 + (seed + q) % 11) % 24          # hour
            f[r, j, 5] = (f[r, j, 5] + 7 + (seed + q) % 13) % 60          # minute
            f[r, j, 1] = (f[r, j, 1] + 1 + (seed + q) % 5) % 12           # month
    else:
        feat = tf.feat_dict[st]
        vals, off = feat.values.clone(), feat.offset.tolist()
        w = off[j + 1] - off[j]
        noise = nngen.randn((len(rows), w), seed, scale=scale)
        vals[rows_t, off[j]:off[j + 1]] = torch.nan_to_num(vals[rows_t, off[j]:off[j + 1]], nan=0.0) + noise + 0.5
        fd[st] = MultiEmbeddingTensor(feat.num_rows, feat.num_cols, vals, feat.offset)
    return TensorFrame(fd, tf.col_names_dict, tf.y)


def feat_equal(a, b):
    """two feature blocks (dense / ragged / embedding) hold the same values (NaN = NaN)"""
    import torch
    if isinstance(a, torch.Tensor):
        return isinstance(b, torch.Tensor) and a.dtype == b.dtype and a.shape == b.shape and \
            torch.equal(torch.nan_to_num(a.double(), nan=-12345.678), torch.nan_to_num(b.double(), nan=-12345.678))
    return type(a) is type(b) and a.num_rows == b.num_rows and a.num_cols == b.num_cols and \
        torch.equal(a.offset, b.offset) and feat_equal(a.values, b.values)


# ---------------------------------------------------------------------------------- known finding probe

PROBE_DF = {'a': [1.0, 2.0, None, 4.0], 'b': [0.5, -1.0, 2.0, 3.0], 'y': [0.0, 1.0, 0.0, 1.0]}


def probe_case(model):
    return {'probe': 'nan-training', 'model_class': model, 'df': PROBE_DF,
            'col_to_stype': {'a': 'numerical', 'b': 'numerical', 'y': 'numerical'}, 'target_col': 'y',
            'model_args': {'channels': 8, 'out_channels': 1, 'num_layers': 2, 'encoders': 'default'},
            'torch_manual_seed': 0, 'optimizer': 'SGD(lr=0.1)', 'loss': 'mse(model(tf).squeeze(1), tf.y)',
            'steps': 1, 'then': 'model.eval(); shift column a by +5 in every row'}


def run_probe(case):
    """one optimizer step on a frame with one missing numerical cell, default encoders; self-contained"""
    torch = nngen.setup()
    import numpy as np
    import pandas as pd
    import torch_frame.nn as tnn
    from torch_frame import TensorFrame, stype
    from torch_frame.data import Dataset
    df = pd.DataFrame({k: [np.nan if v is None else v for v in vs] for k, vs in case['df'].items()})
    ds = Dataset(df, {k: stype(v) for k, v in case['col_to_stype'].items()},
                 target_col=case['target_col']).materialize()
    tf = ds.tensor_frame
    torch.manual_seed(case['torch_manual_seed'])
    a = case['model_args']
    m = getattr(tnn, case['model_class'])(a['channels'], a['out_channels'], a['num_layers'], col_stats=ds.col_stats,
                                          col_names_dict=tf.col_names_dict)
    opt = torch.optim.SGD(m.parameters(), lr=0.1)
    m.train()
    for _ in range(case['steps']):
        opt.zero_grad()
        ((m(tf).squeeze(1) - tf.y) ** 2).mean().backward()
        opt.step()
    m.eval()
    w = m.encoder.encoder_dict['numerical'].weight
    with torch.no_grad():
        x, _ = m.encoder(tf)
        f = tf.feat_dict[stype.numerical].clone()
        f[:, 0] += 5.0
        tf2 = TensorFrame({stype.numerical: f}, tf.col_names_dict, tf.y)
        change = (m(tf2) - m(tf)).abs().max().item()
        finite = bool(torch.isfinite(m(tf)).all())
    return {'probe': 'nan-training', 'weight_row_of_column_a_is_nan': bool(torch.isnan(w[0]).all()),
            'weight_row_of_column_b_is_finite': bool(torch.isfinite(w[1]).all()),
            'embedding_of_column_a_all_zero': bool((x[:, 0] == 0).all()),
            'prediction_change_when_column_a_shifts': change, 'prediction_finite': finite}


class C14(core.Check):
    pid = 'C14'
    driver = 'drv_c14'
    quick_cases = 420
    thorough_cases = 2800
    rule = ('one case = one zoo model (MLP, ResNet, FTTransformer, TabTransformer, Trompt, TabNet, ExcelFormer; round '
            'robin) on a fresh materialized dataset (6-10 rows, 2-3 numerical and 2-3 categorical columns, optional '
            'missing cells; ExcelFormer: numerical only; TabTransformer also with one stype only), random '
            'hyper-parameters (channels 4-8, layers 1-2, normalization none/layer/batch, heads 1-2, prompts 2/4, TabNet '
            'split sizes 2-3 and 0-2 shared/dependent GLU layers), generic random backbone parameters, 0-3 SGD steps in '
            'training mode (non-trivial running statistics), then float64 eval; a batch composition tf[idx] '
            '(permutation, duplicates, subset, single row, empty, all rows; one 520-row TabNet batch per run, more in '
            'thorough); the Lean model receives the output of the real encoder(s) for that batch (forward hook) and '
            'the exported state_dict; non-trivial = non-empty batch; distinct = distinct case hash. '
            'Hardening families (labels scale:* / cfg:* / hist:*): ~10% of the cases carry one size from the stress ladder '
            'extended by the zoo\'s chunking thresholds (513, 2 049 at every level; 4 097 / 16 385 at levels 1 / 2): a long '
            'batch drawn with repetitions from the frame, a long frame with distinct rows (permuted / subset / multiset / '
            'whole), > 256 columns, > 256 categories in one column, channels up to 64 / 128, 3-6 layers; dropout rates > 0 '
            '(MLP, ResNet, TabTransformer, ExcelFormer), ExcelFormer with mixup configured, non-default encoders (NA '
            'strategies, periodic / stack / ExcelFormer encoders) and stype_encoder_dict keys for stypes without columns; '
            'histories on the one model object: evaluation-mode calls (the measured batch, the whole frame, one row, the '
            'empty batch) BEFORE the training steps, and calls / training-mode forward / reset_parameters after them. '
            'Direct oracles added for them: the batch scored in two parts and single positions (incl. 511/512/2047/2048) '
            'scored alone; a freshly constructed model with the same state_dict predicts exactly the same (no state outside '
            'the state_dict); the same model with all dropout rates 0 predicts exactly the same; the first result is '
            're-computed after all other calls. Cases whose encoder output exceeds 400 000 numbers or whose state_dict exceeds '
            '300 000 parameters (TabTransformer with > 100 columns) are judged by these oracles only (oracle_only_cases). '
            'Third round (labels cfg:stype:* / ragged:* / compose:*-empty* / hist:long-training:* / values:train-column:*): 30-40% '
            'of the MLP / ResNet / FTTransformer / Trompt / TabNet cases add 0-2 multicategorical (bag mode mean / sum / max), '
            'timestamp and embedding columns with an explicit stype_encoder_dict (NA strategies with option na); the '
            'multicategorical cells of chosen rows (first, middle, last, last two / three, first and last, all but one, a random '
            'subset) are EMPTY lists - not missing - and half of those cases score a batch in which the rows with empty cells '
            'come last / first / in the middle / alone; the perturbation oracles change cells of every stype. Long training: '
            '12% of the TabNet, 5-6% of the MLP / ResNet / TabTransformer and 1.5% of the other cases run 110-300 (a quarter: '
            '20-100) SGD steps on the first 4-8 rows, in which a strict subset of the columns is constant (also: always 0, '
            'noise 1e-3, noise 1e-7; categorical: one category), and are then scored on >= 2 rows of the whole frame, where '
            'those columns deviate from the training value by 1 / 0.05 / 0.002 of their spread (running variances collapsed '
            'below eps). A returned prediction is overwritten in place and the batch scored again; the TensorFrame is compared '
            'with a snapshot taken right after materialization. The request for the Lean model is built when the case is run '
            '(the trained model is not rebuilt).')
    partial_notes = (
        '"every column can influence the prediction" is an existence claim about generic parameters: the structural '
        'half is encoder_drops_no_column, the numeric half is checked on the real models (generic perturbation of '
        'one column, all rows, three draws)',
        'the stype-wise encoder itself is outside this model (its per-cell / row-wise behaviour is C13); the model '
        'starts at the encoder output captured from the real forward pass',
        'determinism and finiteness are checked on the real models; float round-off and overflow are outside the model',
        'train-mode BatchNorm appears only as the counter-example bn_train_not_rowwise',
        '"can influence" is judged over parameter draws: if a column has no influence under the drawn (trained) state, the '
        'same configuration is re-drawn 6 times (alternately untrained / trained) at perturbation scales 1, 4, 16; the '
        'alarm needs all of them to ignore the column (evidence: columns_ignored_by_one_parameter_state)',
        'the Lean softmax is the textbook exp(x_i) / sum_j exp(x_j) without the shift by the maximum; on Float it overflows '
        'for arguments beyond ~709, which a collapsed running variance (factor 316 per BatchNorm) produces in TabNet\'s '
        'attentive transformers after long training on constant columns: cases whose largest |softmax argument| (read off the '
        'real model by a forward hook) exceeds 600 are judged by the direct oracles only (label '
        'oracle-only:softmax-argument>600)',
        'a multicategorical column without any fitted token (all cells empty) is encoded as zeros whatever the cell holds and '
        'cannot influence a prediction: the zoo datasets keep one row with the whole token vocabulary (batches made only of '
        'empty cells are generated); the long training keeps at least one column varying, so hidden BatchNorm channels do '
        'not collapse one after the other (316^k would leave the range where float64 runs can be compared at 1e-9)',
    )
    assumptions = (
        'PyTorch primitives (Linear, LayerNorm, BatchNorm1d eval, GroupNorm, GLU, SELU, PReLU, softmax, '
        'TransformerEncoderLayer, torch.chunk) modelled from their documentation; validated numerically on every run',
        'Lean Float and PyTorch float64 are IEEE-754 doubles whose exp/tanh/sqrt agree to 1e-9; erf is a series in '
        'the driver',
        'the fused nn.TransformerEncoder fast path is disabled in the harness process',
    )

    # ------------------------------------------------------------------ generation
    SCALE_SHARE = {0: 0.09, 1: 0.08, 2: 0.04}
    MODEL_FLOATS = 400_000          # encoder-output numbers above which a case is judged by the oracle only
    MODEL_PARAMS = 300_000          # exported parameters above which a case is judged by the oracle only
    SOFTMAX_ARG = 600.0             # |softmax argument| above which the unshifted Float softmax of the model overflows

    def generate(self, rng, n, tier):
        big_left = 1 if tier == 'quick' else 12
        for i in range(n):
            k = MODELS[i % len(MODELS)]
            rows = rng.randint(6, 10)
            case = {'model': k, 'seed': rng.randrange(1 << 30), 'rows': rows, 'num': rng.randint(2, 3),
                    'cat': rng.randint(2, 3), 'missing': rng.random() < 0.7, 'out': rng.randint(1, 3),
                    'layers': rng.choice([1, 2]), 'steps': rng.choice([0, 1, 2, 3]),
                    'channels': rng.choice([4, 5, 6, 8])}
            if k == 'excel':
                case['cat'] = 0
                case['num'] = rng.randint(2, 4)
                case['heads'] = rng.choice([1, 2])
                case['channels'] = case['heads'] * rng.choice([2, 3, 4])
            if k in ('mlp', 'resnet'):
                case['norm'] = rng.choice([None, 'layer_norm', 'batch_norm', 'batch_norm'])
            if k == 'ft':
                case['channels'] = 8                      # FTTransformer fixes nhead = 8
                case['layers'] = rng.choice([1, 1, 2])
            if k == 'tabt':
                case['heads'] = rng.choice([1, 2])
                case['pad'] = rng.choice([1, 2])
                case['channels'] = case['heads'] * rng.choice([2, 3]) + (0 if case['heads'] == 2 else 1)
                if case['channels'] % case['heads']:
                    case['channels'] += 1
                only = rng.random()
                if only < 0.12:
                    case['cat'] = 0
                elif only < 0.24:
                    case['num'] = 0
            if k == 'trompt':
                case['prompts'] = rng.choice([2, 4])
                case['channels'] = rng.choice([4, 5, 6])
            if k == 'tabnet':
                case.update(split_feat=rng.randint(2, 3), split_attn=rng.randint(2, 3),
                            gamma=rng.choice([1.0, 1.2, 1.5]), cat_emb=rng.choice([1, 2]),
                            shared=rng.choice([0, 1, 2]), dependent=rng.choice([0, 1, 2]))
                if case['shared'] == 0 and case['dependent'] == 0:
                    case['dependent'] = 1
            if rng.random() < self.SCALE_SHARE.get(self.level, 0.05):
                self.gen_scale(rng, case)
            if k in EXTRA_MODELS and case.get('scale') in (None, 'batch', 'channels', 'layers') and \
                    rng.random() < (0.4 if self.level == 0 else 0.3):
                self.gen_extras(rng, case)
            if 'scale' not in case and rng.random() < self.LONG_P[k] * self.LONG_LEVEL.get(self.level, 0.6):
                self.gen_long(rng, case)
            rows = case['rows']
            if case.get('mc') and 'idx' not in case and rng.random() < 0.5:
                case['idx_kind'], case['idx'] = self.gen_empty_idx(rng, case)
            if 'idx' not in case:
                ikind, idx = nngen.gen_idx(rng, rows)
                if k == 'tabnet' and big_left > 0 and 'scale' not in case:
                    big_left -= 1
                    ikind, idx = 'big520', [rng.randrange(rows) for _ in range(520)]
                case['idx_kind'], case['idx'] = ikind, idx
            if case.get('const') and len(set(case['idx'])) < 2:
                # (the rows scored after a long training: at least two different ones, so that the column varies)
                idx = list(range(rows))
                rng.shuffle(idx)
                case['idx_kind'], case['idx'] = 'perm', idx
            case['row'] = rng.randrange(rows)
            case['col'] = rng.randrange(len(feature_names(case)))
            self.gen_config(rng, case)
            yield case

    # share of long-training cases per model: the models with running statistics (BatchNorm / GhostBatchNorm) most often
    LONG_P = {'tabnet': 0.12, 'mlp': 0.06, 'resnet': 0.06, 'tabt': 0.05, 'ft': 0.015, 'trompt': 0.015, 'excel': 0.015}
    LONG_LEVEL = {0: 1.0, 1: 0.8, 2: 0.6}

    def gen_extras(self, rng, case):
        """multicategorical (with EMPTY cells in the first / middle / last rows or everywhere), timestamp and embedding
        columns next to the numerical / categorical ones; they need an explicit stype_encoder_dict"""
        case['mc'] = rng.choice([0, 1, 1, 2])
        case['ts'] = rng.choice([0, 0, 1, 2])
        case['emb'] = rng.choice([0, 0, 1, 2])
        if not (case['mc'] or case['ts'] or case['emb']):
            case['mc'] = 1
        if case['mc']:
            # (all rows empty = no fitted token at all: such a column cannot influence anything; batches made of empty
            #  cells only are drawn by gen_empty_idx)
            case['empty'] = rng.choice(['none', 'random', 'random', 'first', 'middle', 'last', 'last', 'last2', 'last3',
                                        'first+last', 'all-but-one'])
            case['bag_mode'] = rng.choice(['mean', 'sum', 'max'])
        if case['model'] in ('ft', 'trompt') and rng.random() < 0.5:
            case['num'], case['cat'] = rng.randint(1, 2), rng.randint(1, 2)      # (attention is quadratic in the columns)

    @staticmethod
    def gen_empty_idx(rng, case):
        """batch compositions by the position of the rows whose ragged cells are empty: last / first / middle / alone"""
        n = case['rows']
        E = empty_rows(case)
        N = [q for q in range(n) if q not in E]
        if not E:
            return nngen.gen_idx(rng, n)
        pick = rng.sample(N, rng.randint(1, len(N))) if N else []
        es = [rng.choice(E) for _ in range(rng.choice([1, 1, 2, 3]))]
        h = len(pick) // 2
        kind = rng.choice(['ends-with-empty', 'ends-with-empty', 'starts-with-empty', 'empty-in-the-middle', 'only-empty'])
        idx = {'ends-with-empty': pick + es, 'starts-with-empty': es + pick, 'empty-in-the-middle': pick[:h] + es + pick[h:],
               'only-empty': es}[kind]
        return kind, idx

    def gen_long(self, rng, case):
        """long training (a few hundred cheap optimisation steps) on rows in which some columns are constant, nearly
        constant or have a vanishing variance; the later rows - scored in evaluation mode - vary in those columns"""
        k = case['model']
        T = rng.randint(4, 8)
        case['rows'] = T + rng.randint(4, 8)
        names = [f'n{i}' for i in range(case['num'])] + [f'c{i}' for i in range(case['cat'])]
        chosen = rng.sample(names, rng.randint(1, max(1, len(names) - 1)))
        kinds = {}
        for nm in chosen:
            kinds[nm] = rng.choice(['const', 'const', 'zero', 'near', 'tiny']) if nm.startswith('n') else 'const'
        case['const'] = {'T': T, 'cols': kinds,
                         'dev': {nm: rng.choice([1.0, 0.05, 0.002]) for nm in chosen if nm.startswith('n')}}
        cheap = k in ('mlp', 'resnet', 'tabnet', 'tabt')
        if rng.random() < 0.25:
            case['steps'] = rng.choice([20, 60, 100])
        else:
            case['steps'] = rng.choice([110, 120, 150, 200, 300] if cheap else [110, 120, 150])
        if k in ('mlp', 'resnet') and rng.random() < 0.7:
            case['norm'] = 'batch_norm'
        case['layers'] = min(case['layers'], 2)

    def gen_scale(self, rng, case):
        """family 1: one size far above the small default - batch (> 512, > 2 048 rows), frame length, number of
        columns (> 256), categories of one column (> 256), channels, layers >= 3"""
        from harness import stress
        k, lvl = case['model'], self.level

        def size(cap, ladder=None):
            xs = [x for x in (ladder or stress.ladder(lvl)) if x <= cap]
            if rng.random() < 0.5:
                return max(xs) + rng.choice([0, 0, 1, 2])
            return rng.choice(xs) + rng.choice([0, 0, 1, 2])
        dims = ['batch', 'batch', 'rows', 'rows', 'cols', 'cats', 'channels', 'layers']
        if k == 'excel':
            dims = ['batch', 'batch', 'rows', 'rows', 'cols', 'cols', 'channels', 'layers']
        if k == 'tabt' and case['cat'] == 0:
            dims = [d for d in dims if d != 'cats']
        dim = rng.choice(dims)
        case['scale'] = dim
        # the chunking thresholds of the zoo (ghost batches of 512 rows, blocks of 2 048 rows) are part of every level
        long_ladder = stress.LADDER_SMALL + [513, 2049] + ([1025, 4097] if lvl >= 1 else []) + ([16385] if lvl >= 2 else [])
        if dim in ('batch', 'rows') and k not in ('tabnet',) and rng.random() < 0.7:
            # scale is combined with depth: per-row state handed from layer to layer must stay aligned in long batches
            case['layers'] = rng.choice([2, 2, 3])
        if dim == 'batch':
            # a long batch drawn (with repetitions, shuffled) from the few rows of the frame
            b = size(70000, long_ladder)
            case['idx_kind'], case['idx'] = f'big{self.bucket(b)}', [rng.randrange(case['rows']) for _ in range(b)]
        elif dim == 'rows':
            # a long frame with distinct rows; the batch is a permutation / a large multiset / everything
            r = size(70000, long_ladder)
            case['rows'] = r
            kind = rng.choice(['perm', 'all', 'dups', 'subset'])
            if kind == 'perm':
                idx = list(range(r))
                rng.shuffle(idx)
            elif kind == 'all':
                idx = list(range(r))
            elif kind == 'dups':
                idx = [rng.randrange(r) for _ in range(r + rng.randint(0, 9))]
            else:
                idx = sorted(rng.sample(range(r), rng.randint(r // 2, r)))
            case['idx_kind'], case['idx'] = f'long-{kind}', idx
            case['steps'] = min(case['steps'], 2)
        elif dim == 'cols':
            c = size(260 if lvl == 0 else 520)
            if k == 'excel':
                case['num'] = c
            elif k == 'tabt':
                case['cat' if case['cat'] else 'num'] = c
            else:
                case['num'], case['cat'] = (c, rng.randint(1, 2)) if rng.random() < 0.5 else (rng.randint(1, 2), c)
            case['steps'] = min(case['steps'], 1)
            case['channels'] = {'ft': 8, 'excel': case.get('heads', 1) * 3, 'tabt': case['channels']}.get(k, 4)
        elif dim == 'cats':
            c = size(260 if lvl == 0 else 1030)
            case['bigcat'] = c
            case['rows'] = c + rng.randint(3, 12)
        elif dim == 'channels':
            if k == 'ft':
                case['channels'] = rng.choice([16, 32, 64])
            elif k in ('excel', 'tabt'):
                case['channels'] = case['heads'] * size(70)
            elif k != 'tabnet':
                case['channels'] = size(70)
            else:
                case['split_feat'], case['split_attn'] = size(40), size(40)
        elif dim == 'layers':
            case['layers'] = rng.choice([3, 4] if lvl == 0 else [3, 4, 6])

    def gen_config(self, rng, case):
        """families 5 and 6: dropout rates > 0 (inactive in evaluation mode), mixup configured, encoder options,
        stype keys without columns; earlier calls on the same model object before / after the training steps"""
        k, r = case['model'], rng.random
        if k in ('mlp', 'resnet') and r() < 0.5:
            case['drop'] = {'p': rng.choice([0.0, 0.2, 0.5, 0.9])}          # (the class default is 0.2)
        if k == 'tabt' and r() < 0.6:
            case['drop'] = {'attn': rng.choice([0.0, 0.3, 0.5, 0.9]), 'ffn': rng.choice([0.0, 0.3, 0.9])}
        if k == 'excel' and r() < 0.6:
            case['drop'] = {'diam': rng.choice([0.0, 0.3, 0.9]), 'aium': rng.choice([0.0, 0.3, 0.9]),
                            'residual': rng.choice([0.0, 0.3, 0.9])}
        if k == 'excel' and r() < 0.3:
            case['mixup'] = rng.choice(['feature', 'hidden'])
        if k != 'tabt' and r() < 0.25:
            case['enc'] = rng.choice(['na', 'periodic', 'extra-keys'])
        if r() < 0.12:
            case['block_dtype'] = {k_: v for k_, v in (('num', 'f32'), ('cat', 'i32')) if r() < 0.7}
        if r() < 0.35:
            calls = ['batch', 'batch', 'full', 'one', 'empty', 'train_eval']
            case['pre'] = [rng.choice(calls) for _ in range(rng.choice([1, 2, 3]))]
            if case['steps'] == 0 and r() < 0.5:
                case['steps'] = rng.choice([1, 2])
        if r() < 0.25:
            calls = ['batch', 'full', 'one', 'empty', 'train_fwd', 'train_fwd', 'train_eval', 'reset']
            case['post'] = [rng.choice(calls) for _ in range(rng.choice([1, 1, 2]))]
        if case.get('scale') in ('rows', 'batch') and len(case['idx']) > 3000:
            case['pre'] = [h for h in case.get('pre', []) if h != 'full'][:1]
            case['post'] = [h for h in case.get('post', []) if h != 'full'][:1]

    @staticmethod
    def bucket(v):
        for t in (65537, 16385, 4097, 2049, 1025, 513, 257, 129, 65, 33, 17):
            if v >= t:
                return f'{t}+'
        return 'small'

    # ------------------------------------------------------------------ real code
    def _run(self, case):
        torch = nngen.setup()
        ds, tf = make_frame(case)
        small = len(tf) * len(feature_names(case)) <= 50_000
        st = {'ds': ds, 'tf': tf}
        if small:
            st['tf_snap'] = ({k_: v.clone() for k_, v in tf.feat_dict.items()},
                             {k_: list(v) for k_, v in tf.col_names_dict.items()})
        m = make_model(case, ds, tf)
        st['m'] = m
        try:
            batch = select(tf, case['idx'])
            snap = {k_: v.clone() for k_, v in batch.feat_dict.items()}
            logits = []
            out, enc = run_model(case, m, batch, logits)
            st['out'], st['enc'] = out, enc
            st['softmax_arg'] = max([v for v in logits if v == v] + [0.0])
            st['out_snap'] = out.clone()
            st['input_modified'] = any(not feat_equal(v, snap[k_]) for k_, v in batch.feat_dict.items())
        except Exception as e:  # noqa
            st['out'], st['exc'] = None, f'{type(e).__name__}: {e}'
        self._stash = (core.stable_hash(case), st)
        return st

    def _state(self, case):
        st = getattr(self, '_stash', None)
        if st is None or st[0] != core.stable_hash(case):
            return self._run(case)
        return st[1]

    def real(self, case):
        if 'probe' in case:
            return run_probe(case)
        st = self._run(case)
        # the engine asks for the model requests only after ALL cases were run: build them now, while the trained
        # model exists (re-running the case - and its training - a second time doubled the run time)
        key = core.stable_hash(case)
        cache = self.__dict__.setdefault('_reqs', {})
        skip = st['out'] is not None and self.oracle_only(case, st)
        cache[key] = ([] if (st['out'] is None or skip) else self.build_requests(case, st), skip)
        if st['out'] is None:
            return 'raises'
        return st['out'].tolist()

    # ------------------------------------------------------------------ model
    def oracle_only(self, case, st):
        """inputs whose encoder output exceeds MODEL_FLOATS numbers are judged by the metamorphic oracle on the real
        model only (the Lean model would need minutes for them)"""
        n = sum(e.numel() for e in st.get('enc', []))
        attn = len(case['idx']) * case['num'] ** 2 if case['model'] == 'excel' else 0
        # (TabTransformer's decoder is quadratic in the number of columns: 2 M parameters at 257 columns)
        params = sum(p.numel() for p in st['m'].parameters()) if 'm' in st else 0
        # the Lean model's softmax is the textbook exp(x_i) / sum_j exp(x_j) (no shift by the maximum): on Float it
        # overflows for arguments beyond ~709, which a collapsed running variance (x 316) produces
        return (n > self.MODEL_FLOATS or attn > 3_000_000 or params > self.MODEL_PARAMS
                or st.get('softmax_arg', 0.0) > self.SOFTMAX_ARG)

    # core.Check.replay prints the model outcome with json.dumps, which cannot render core.SKIP_MODEL: during a replay
    # an oracle-only case reports a printable marker instead
    _replaying = False

    def replay(self, path):
        self._replaying = True
        return super().replay(path)

    def skip_model(self):
        return 'oracle-only case: not shipped to the Lean model' if self._replaying else core.SKIP_MODEL

    def model_requests(self, case):
        if 'probe' in case:
            return []
        hit = self.__dict__.get('_reqs', {}).get(core.stable_hash(case))
        if hit is not None:
            return hit[0]
        st = self._state(case)
        if st['out'] is None or self.oracle_only(case, st):
            return []
        return self.build_requests(case, st)

    @staticmethod
    def build_requests(case, st):
        k = case['model']
        req = {'cmd': k, 'p': export(case, st['m'])}
        enc = [nngen.enc(e) for e in st['enc']]
        if k == 'trompt':
            req['xs'] = enc
        elif k == 'tabt':
            has_cat = hasattr(st['m'], 'cat_encoder')
            has_num = hasattr(st['m'], 'num_encoder')
            req['xcat'] = enc[0] if has_cat else []
            req['xnum'] = enc[-1] if has_num else []
        else:
            req['x'] = enc[0]
        return [req]

    def model_outcome(self, case, replies):
        if 'probe' in case:
            return 'probe-not-modelled'
        if not replies:
            hit = self.__dict__.get('_reqs', {}).get(core.stable_hash(case))
            if hit is not None:
                return self.skip_model() if hit[1] else 'raises'
            st = self._state(case)
            if st['out'] is not None and self.oracle_only(case, st):
                return self.skip_model()
            return 'raises'
        return nngen.dec(replies[0])

    def equal(self, a, b):
        if b == 'probe-not-modelled' or (isinstance(b, str) and b.startswith('oracle-only')):
            return True
        return nngen.tol_equal(a, b)

    # ------------------------------------------------------------------ direct oracle on the real models
    def oracle(self, case, real_outcome):
        import torch
        if 'probe' in case:
            r = real_outcome
            if r['weight_row_of_column_a_is_nan'] and r['prediction_change_when_column_a_shifts'] == 0.0:
                return core.Violation(
                    'encoder/nan-weights-after-training-on-missing',
                    f"{case['model_class']}: one optimizer step on a frame with one missing numerical cell (default "
                    "LinearEncoder, na_strategy=None) makes the column's weight row NaN; afterwards the column "
                    'cannot influence any prediction', case,
                    'finite encoder weights; shifting column a changes the prediction', r)
            return None
        st = self._state(case)
        k, m, tf, ds = case['model'], st['m'], st['tf'], st['ds']

        def V(what, exp=None, act=None):
            return core.Violation(f'{k}/{what}', f'{k}: {what}', case, exp, act)

        if st['out'] is None:
            return V('raises', 'a prediction', st.get('exc'))
        out = st['out']
        B = len(case['idx'])
        want = (B, case['layers'], case['out']) if k == 'trompt' else (B, case['out'])
        if tuple(out.shape) != want:
            return V('shape', want, tuple(out.shape))
        if not bool(torch.isfinite(out).all()):
            return V('non-finite prediction')
        if st.get('input_modified'):
            return V('input-modified', 'the TensorFrame handed to the model is unchanged by the call', 'changed in place')
        idx = torch.tensor(case['idx'], dtype=torch.long)
        with torch.no_grad():
            again = m(tf[idx])
            if not torch.equal(again, out):
                return V('non-deterministic', 'two evaluation-mode calls on the same batch agree exactly',
                         f'max deviation {nngen.max_dev(again, out):.3e}')
            # the returned prediction belongs to the caller: overwriting it in place changes no later call
            again.mul_(0.0).add_(float('nan') if case['seed'] % 2 else 7.5)
            third = m(tf[idx])
            if not torch.equal(third, st['out_snap']) or not torch.equal(out, st['out_snap']):
                return V('returned-value-aliases-state', 'after the caller overwrote a returned prediction in place the same '
                         'batch is predicted as before', f'max deviation {nngen.max_dev(third, st["out_snap"]):.3e}')
            full = m(tf)
        if not bool(torch.isfinite(full).all()):
            return V('non-finite prediction')
        dev = nngen.max_dev(out, full[idx])
        if dev > TOL:
            return V('not-row-independent', 'model(tf[idx]) == model(tf)[idx]', f'max deviation {dev:.3e}')
        # every row scored alone / in another grouping of the same rows (a sample of them for long batches)
        if B > 0:
            probe = sorted(set([0, B - 1, B // 2] + ([511, 512, 2047, 2048] if B > 2048 else [511, 512] if B > 512 else [])))
            probe = [i for i in probe if i < B]
            with torch.no_grad():
                for i in probe:
                    dev = nngen.max_dev(m(tf[[case['idx'][i]]]), out[i:i + 1])
                    if dev > TOL:
                        return V('not-row-independent', f'position {i} of the batch scored alone gives the same '
                                 'prediction', f'max deviation {dev:.3e}')
                if B > 3:
                    cut = case['seed'] % (B - 1) + 1
                    parts = torch.cat([m(tf[idx[:cut]]), m(tf[idx[cut:]])], dim=0)
                    dev = nngen.max_dev(parts, out)
                    if dev > TOL:
                        return V('not-row-independent', f'the batch scored in two parts (split at {cut}) gives the same '
                                 'predictions', f'max deviation {dev:.3e}')
        # the prediction is a function of the parameters and the row: an identically configured fresh model with the
        # same state_dict predicts the same, whatever was called on this object before
        twin = construct(case, ds, tf)
        twin.load_state_dict(m.state_dict())
        with torch.no_grad():
            tw = twin.eval()(tf[idx])
        dev = nngen.max_dev(tw, out)
        if dev > 0.0:
            return V('history-dependent', f'after pre={case.get("pre")}, {case["steps"]} training steps, post={case.get("post")} '
                     'the model predicts what a fresh model with the same state_dict predicts', f'max deviation {dev:.3e}')
        if case.get('drop') and any(v > 0 for v in case['drop'].values()):
            plain = construct(case, ds, tf, drop=False)
            plain.load_state_dict(m.state_dict())
            with torch.no_grad():
                pl = plain.eval()(tf[idx])
            dev = nngen.max_dev(pl, out)
            if dev > 0.0:
                return V('dropout-active-in-eval', f'dropout rates {case["drop"]} do not change evaluation-mode predictions',
                         f'max deviation {dev:.3e} from the same model with rate 0')
        # changing one row changes only that row's prediction
        r = case['row']
        with torch.no_grad():
            o2 = m(perturbed(tf, ds, case['col'], [r], case['seed'] + 3))
        keep = [i for i in range(len(tf)) if i != r]
        dev = nngen.max_dev(o2[keep], full[keep])
        if dev > TOL:
            return V('row-perturbation-leaks', f'only row {r} changes', f'other rows deviate by {dev:.3e}')
        # every column can influence the prediction
        v = self.oracle_influence(case, st, full, V)
        if v is not None:
            return v
        with torch.no_grad():
            if not torch.equal(m(tf[idx]), st['out_snap']) or not torch.equal(out, st['out_snap']):
                return V('non-deterministic', 'the prediction of the batch is the same after the other calls of this check',
                         'changed')
        if 'tf_snap' in st:
            feats, names = st['tf_snap']
            if {k_: list(v) for k_, v in tf.col_names_dict.items()} != names or \
                    any(not feat_equal(v, feats[k_]) for k_, v in tf.feat_dict.items()):
                return V('input-modified', 'the TensorFrame is what it was before training / scoring (snapshot taken right '
                         'after materialization)', 'changed')
        return None

    REDRAWS = 6

    def oracle_influence(self, case, st, full, V):
        """"every feature column can influence the prediction" is an existence claim over parameters: a particular
        (trained) state may ignore one column (sparsemax zeros, a saturated softmax, dead ReLUs).  The alarm is
        raised only if the column has no influence under the drawn state AND under REDRAWS fresh generic parameter
        draws of the same configuration (alternately untrained / after the same training steps), at several
        perturbation scales.  A column the code drops fails under every draw."""
        import torch
        m, tf, ds = st['m'], st['tf'], st['ds']
        rows = list(range(len(tf)))
        for t in range(3):
            with torch.no_grad():
                o3 = m(perturbed(tf, ds, case['col'], rows, case['seed'] + 17 + t, scale=1.0 + t))
            if nngen.max_dev(o3, full) > 0.0:
                return None
        for t in range(self.REDRAWS):
            m2 = make_model(case, ds, tf, pseed=case['seed'] + 7919 * (t + 1), steps=case['steps'] if t % 2 else 0)
            with torch.no_grad():
                base = m2(tf)
                for scale in (1.0, 4.0, 16.0):
                    o3 = m2(perturbed(tf, ds, case['col'], rows, case['seed'] + 41 + t, scale=scale))
                    if nngen.max_dev(o3, base) > 0.0:
                        self._ignored = getattr(self, '_ignored', 0) + 1
                        return None
        return V('column-without-influence', f'perturbing column {case["col"]} changes some prediction under the drawn '
                 f'parameters or under one of {self.REDRAWS} fresh generic parameter draws', 'no change under any draw')

    def extra_checks(self, rng, tier, report):
        """deterministic reproduction of the recorded finding (training on missing cells poisons the default
        encoders); reported under its own key so that any other loss of influence stays a fresh violation"""
        seen = {}
        for model in ('MLP', 'ResNet', 'FTTransformer'):
            case = probe_case(model)
            r = run_probe(case)
            seen[model] = r
            v = self.oracle(case, r)
            if v is not None:
                report['violations'].append(v)
        report['extra']['nan_training_probe'] = seen
        report['extra']['columns_ignored_by_one_parameter_state'] = getattr(self, '_ignored', 0)

    def nontrivial_key(self, case, r):
        if 'probe' in case:
            return None
        if r == 'raises' or not case['idx']:
            return None
        return core.stable_hash(case)

    def classify(self, case, r):
        if 'probe' in case:
            return ['probe']
        labs = [f"model:{case['model']}", f"compose:{case['idx_kind']}", f"batch:{min(len(case['idx']), 11)}",
                f"steps:{case['steps']}", f"missing:{case['missing']}", f"layers:{min(case['layers'], 3)}",
                'outcome:raises' if r == 'raises' else 'outcome:ok']
        if 'norm' in case:
            labs.append(f"norm:{case['model']}/{case['norm']}")
        if case['model'] == 'tabt':
            labs.append(f"tabt-branches:cat{min(case['cat'], 1)}num{min(case['num'], 1)}")
        if case['model'] == 'tabnet':
            labs.append(f"tabnet-glu:shared{min(case['shared'], 2)}dep{min(case['dependent'], 2)}")
        if 'scale' in case:
            dim = case['scale']
            v = {'batch': len(case['idx']), 'rows': case['rows'], 'cols': case['num'] + case['cat'],
                 'cats': case.get('bigcat', 0), 'channels': max(case['channels'], case.get('split_feat', 0)),
                 'layers': case['layers']}[dim]
            labs.append(f"scale:{dim}:{v if dim == 'layers' else self.bucket(v)}")
            if dim in ('batch', 'rows'):
                labs.append(f"scale:{dim}:{case['model']}:{self.bucket(len(case['idx']))}")
        if case.get('drop') and any(v > 0 for v in case['drop'].values()):
            labs.append(f"cfg:dropout>0:{case['model']}")
        if case.get('mixup'):
            labs.append('cfg:mixup-configured')
        if case.get('enc'):
            labs.append(f"cfg:encoders:{case['enc']}")
        for k_, lab in (('mc', 'multicategorical'), ('ts', 'timestamp'), ('emb', 'embedding')):
            if case.get(k_):
                labs.append(f"cfg:stype:{lab}:{case['model']}")
        if case.get('mc'):
            labs.append(f"ragged:empty-cells:{case['empty']}")
            labs.append(f"cfg:bag-mode:{case['bag_mode']}")
            E = set(empty_rows(case))
            if case['idx'] and case['idx'][-1] in E and any(q not in E for q in case['idx']):
                labs.append('ragged:batch-ends-with-empty-cells')
            if case['idx'] and case['idx'][0] in E:
                labs.append('ragged:batch-starts-with-empty-cells')
            if (case['rows'] - 1) in E:
                labs.append('ragged:frame-ends-with-empty-cells')
        if case.get('const'):
            labs.append(f"hist:long-training:{case['model']}:{'110+' if case['steps'] >= 110 else '<110'}-steps")
            for nm, kind in case['const']['cols'].items():
                labs.append(f"values:train-column:{'numerical' if nm.startswith('n') else 'categorical'}:{kind}")
            for nm, d in case['const']['dev'].items():
                labs.append(f'values:eval-deviation-in-constant-column:x{d}')
            T = case['const']['T']
            if any(q >= T for q in case['idx']) and len(case['idx']) >= 2:
                labs.append('hist:long-training:eval-batch-varies-in-constant-columns')
        for k_, v in (case.get('block_dtype') or {}).items():
            if case[k_]:
                labs.append(f'dtype:{k_}:{v}')
        for h in case.get('pre', []):
            labs.append(f'hist:before-training:{h}')
        for h in case.get('post', []):
            labs.append(f'hist:after-training:{h}')
        if case.get('pre') and case['steps'] and 'batch' in case['pre']:
            labs.append('hist:eval(batch)->train-steps->eval(batch)')
        hit = self.__dict__.get('_reqs', {}).get(core.stable_hash(case))
        st = self._state(case)
        if hit[1] if hit is not None else (st.get('out') is not None and self.oracle_only(case, st)):
            labs.append('oracle-only')
            if st.get('softmax_arg', 0.0) > self.SOFTMAX_ARG:
                labs.append('oracle-only:softmax-argument>600')
        return labs


CHECK = C14()

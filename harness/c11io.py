"""Generators, builders, canonicalisers and the direct oracle parts for C11 (save/load, cache protocol).

Everything a case needs is in its JSON spec (explicit numbers, no hidden randomness), so a replay file
rebuilds exactly the same real objects.  Floats are written as multiples of 0.25 (float32-exact) or the
string "nan"."""
from __future__ import annotations

import math
import os
import warnings

import numpy as np
import pandas as pd
import torch

import torch_frame
from torch_frame import TensorFrame, stype
from torch_frame.config import ImageEmbedderConfig, TextEmbedderConfig, TextTokenizerConfig
from torch_frame.data import Dataset
from torch_frame.data import MultiEmbeddingTensor as MET
from torch_frame.data import MultiNestedTensor as MNT
from torch_frame.data.stats import StatType

from harness import core

# the mappers wrap their mini-batch loops in tqdm progress bars (stderr noise only): silence them in this process
import torch_frame.data.mapper as _mapper_mod  # noqa: E402
_mapper_mod.tqdm = lambda it, **kw: it

DENSE = ['numerical', 'categorical', 'timestamp']
NESTED = ['multicategorical', 'sequence_numerical']
EMB = ['text_embedded', 'image_embedded', 'embedding']
DICT = ['text_tokenized']
ALL_STYPES = [s.name for s in stype]
DTYPES = {'float32': torch.float32, 'float64': torch.float64, 'int64': torch.int64, 'int32': torch.int32,
          'bool': torch.bool}


def kind_of(name):
    """storage kind of an stype, read from the LIVE flags (not from a list of mine)."""
    s = stype(name)
    if s.use_multi_nested_tensor:
        return 'nested'
    if s.use_multi_embedding_tensor:
        return 'emb'
    if s.use_dict_multi_nested_tensor:
        return 'dict'
    return 'dense'


# ------------------------------------------------------------------------------- scalar coding
def fl(x):
    return float('nan') if x == 'nan' else float(x)


def enc_scalar(x, is_float):
    """model-side integer of one tensor element: ints as they are, floats as float64 bit pattern"""
    if is_float:
        return core.float_bits(x)
    return int(x)


def tensor_of(values, dtype):
    dt = DTYPES[dtype]
    if dt.is_floating_point:
        def conv(v):
            return [conv(u) for u in v] if isinstance(v, list) else fl(v)
        return torch.tensor(conv(values), dtype=dt)
    return torch.tensor(values, dtype=dt)


def canon_tensor(t):
    isf = t.dtype.is_floating_point
    return {'dtype': str(t.dtype).replace('torch.', ''), 'shape': [int(s) for s in t.shape],
            'data': [enc_scalar(x, isf) for x in t.detach().reshape(-1).tolist()]}


def canon_mnt(m):
    isf = m.values.dtype.is_floating_point
    return {'k': 'nested', 'dtype': str(m.values.dtype).replace('torch.', ''), 'R': int(m.num_rows),
            'C': int(m.num_cols),
            'values': [enc_scalar(x, isf) for x in m.values.reshape(-1).tolist()] if m.values.dim() == 1 else 'bad-ndim',
            'offset': [int(x) for x in m.offset.tolist()]}


def canon_met(m):
    isf = m.values.dtype.is_floating_point
    if m.values.dim() != 2:
        return {'k': 'emb', 'dtype': str(m.values.dtype).replace('torch.', ''), 'R': int(m.num_rows),
                'C': int(m.num_cols), 'W': -1, 'values': 'bad-ndim', 'offset': [int(x) for x in m.offset.tolist()]}
    return {'k': 'emb', 'dtype': str(m.values.dtype).replace('torch.', ''), 'R': int(m.num_rows),
            'C': int(m.num_cols), 'W': int(m.values.shape[1]),
            'values': [[enc_scalar(x, isf) for x in row] for row in m.values.tolist()],
            'offset': [int(x) for x in m.offset.tolist()]}


def canon_feat(f):
    if isinstance(f, torch.Tensor):
        return {'k': 'dense', 't': canon_tensor(f)}
    if isinstance(f, MNT):
        return canon_mnt(f)
    if isinstance(f, MET):
        return canon_met(f)
    if isinstance(f, dict):
        return {'k': 'dict', 'items': [[str(k), canon_mnt(v)] for k, v in f.items()]}
    return {'k': 'unknown:' + type(f).__name__}


def canon_frame(tf):
    """the abstract value of a real TensorFrame in the encoding of Drivers/C11.lean (dict order kept)"""
    return {'feats': [[s.name, canon_feat(f)] for s, f in tf.feat_dict.items()],
            'cols': [[s.name, [str(c) for c in cols]] for s, cols in tf.col_names_dict.items()],
            'y': None if tf.y is None else canon_tensor(tf.y)}


def extras_frame(tf):
    """observables outside the Lean value: offset dtypes, devices, explicit num_rows"""
    out = {'num_rows': int(tf.num_rows), '_num_rows': tf._num_rows}
    for s, f in tf.feat_dict.items():
        parts = list(f.values()) if isinstance(f, dict) else [f]
        out[s.name] = [[str(getattr(p, 'offset', torch.zeros(0, dtype=torch.long)).dtype),
                        str(p.device), type(p).__name__] for p in parts]
    return out


def cells_frame(tf):
    """cell-wise reading of a frame through the public accessors (`feat[i, j]`), keys sorted:
    a second, representation-independent view used by the oracle."""
    out = {}
    for s in sorted(tf.feat_dict, key=lambda s: s.name):
        f = tf.feat_dict[s]

        def cells(m):
            isf = m.values.dtype.is_floating_point
            return [[[enc_scalar(x, isf) for x in m[i, j].reshape(-1).tolist()] for j in range(m.num_cols)]
                    for i in range(m.num_rows)]
        if isinstance(f, torch.Tensor):
            isf = f.dtype.is_floating_point
            out[s.name] = [str(f.dtype), list(f.shape), [enc_scalar(x, isf) for x in f.reshape(-1).tolist()]]
        elif isinstance(f, dict):
            out[s.name] = {k: [str(f[k].values.dtype), cells(f[k])] for k in sorted(f)}
        else:
            out[s.name] = [str(f.values.dtype), cells(f)]
    out['__cols__'] = {s.name: list(c) for s, c in tf.col_names_dict.items()}
    out['__y__'] = None if tf.y is None else canon_tensor(tf.y)
    out['__len__'] = len(tf)
    return out


def canon_stats(x):
    """deep, type-exact canonical form of a statistics value (dict entries sorted)"""
    if x is None:
        return None
    if isinstance(x, StatType):
        return {'stat': x.name}
    if isinstance(x, stype):
        return {'stype': x.name}
    if isinstance(x, bool):
        return {'b': x}
    if isinstance(x, np.generic):
        if isinstance(x, np.floating):
            return {'np': str(x.dtype), 'v': core.float_bits(float(x))}
        if isinstance(x, np.bool_):
            return {'np': 'bool', 'v': int(bool(x))}
        if isinstance(x, np.integer):
            return {'np': str(x.dtype), 'v': int(x)}
        return {'np': str(x.dtype), 'v': repr(x)}
    if isinstance(x, int):
        return {'i': x}
    if isinstance(x, float):
        return {'f': core.float_bits(x)}
    if isinstance(x, str):
        return {'s': x}
    if isinstance(x, list):
        return {'l': [canon_stats(v) for v in x]}
    if isinstance(x, tuple):
        return {'t': [canon_stats(v) for v in x]}
    if isinstance(x, dict):
        items = [[canon_stats(k), canon_stats(v)] for k, v in x.items()]
        items.sort(key=lambda kv: core.stable_hash(kv[0]))
        return {'d': items}
    if isinstance(x, torch.Tensor):
        return {'T': canon_tensor(x)}
    if isinstance(x, np.ndarray):
        return {'nd': str(x.dtype), 'shape': list(x.shape), 'v': [canon_stats(v) for v in x.reshape(-1).tolist()]}
    return {'other': type(x).__name__, 'repr': repr(x)}


def canon_serialized(raw):
    """canonical form of the python value `(tf_dict, col_stats)` actually found in a written file"""
    tf_dict, col_stats = raw

    def mt(d):
        v = d['values']
        isf = v.dtype.is_floating_point
        if v.dim() == 1:
            vals = {'ndim': 1, 'data': [enc_scalar(x, isf) for x in v.tolist()]}
        else:
            vals = {'ndim': 2, 'W': int(v.shape[1]), 'data': [[enc_scalar(x, isf) for x in row] for row in v.tolist()]}
        return {'num_rows': int(d['num_rows']), 'num_cols': int(d['num_cols']),
                'dtype': str(v.dtype).replace('torch.', ''), 'values': vals,
                'offset': [int(x) for x in d['offset'].tolist()]}

    def ser(x):
        if isinstance(x, torch.Tensor):
            return {'k': 'tensor', 't': canon_tensor(x)}
        if isinstance(x, dict) and set(x.keys()) == {'num_rows', 'num_cols', 'values', 'offset'}:
            return {'k': 'mt', 'd': mt(x)}
        if isinstance(x, dict):
            return {'k': 'dictMT', 'items': [[str(k), mt(v)] for k, v in x.items()]}
        return {'k': 'unknown:' + type(x).__name__}
    return {'y': None if tf_dict['y'] is None else canon_tensor(tf_dict['y']),
            'col_names_dict': [[s.name, list(c)] for s, c in tf_dict['col_names_dict'].items()],
            'feat_serialized_dict': [[s.name, ser(x)] for s, x in tf_dict['feat_serialized_dict'].items()],
            'col_stats': canon_stats(col_stats)}


# ------------------------------------------------------------------------------- direct frames
def _rnd_float(rng, nan_p=.1):
    return 'nan' if rng.random() < nan_p else rng.randint(-20, 20) * 0.25


def gen_direct_frame(rng, R=None, stypes=None):
    """an abstract TensorFrame: any subset of the nine stypes as keys, each with its storage kind"""
    R = rng.choice([0, 1, 2, 3, 5, 6, 6, 8, 10]) if R is None else R
    if stypes is None:
        k = rng.choice([1, 2, 3, 3, 4, 5, 9])
        stypes = rng.sample(ALL_STYPES, k)
    feats = []
    n = 0
    for name in stypes:
        C = rng.choice([1, 1, 2, 3])
        cols = [f'{name[:3]}_{n + i}' for i in range(C)]
        n += C
        kind = kind_of(name)
        if kind == 'dense':
            if name == 'timestamp':
                data = [[[rng.randint(-1, 60) for _ in range(7)] for _ in range(C)] for _ in range(R)]
                feats.append({'stype': name, 'kind': kind, 'cols': cols, 'dtype': 'int64', 'shape': [R, C, 7], 'data': data})
            elif name == 'categorical':
                data = [[rng.randint(-1, 5) for _ in range(C)] for _ in range(R)]
                feats.append({'stype': name, 'kind': kind, 'cols': cols, 'dtype': 'int64', 'shape': [R, C], 'data': data})
            else:
                dt = rng.choice(['float32', 'float32', 'float64'])
                data = [[_rnd_float(rng) for _ in range(C)] for _ in range(R)]
                feats.append({'stype': name, 'kind': kind, 'cols': cols, 'dtype': dt, 'shape': [R, C], 'data': data})
        elif kind == 'nested':
            isf = name == 'sequence_numerical'
            mode = rng.choice(['mixed', 'mixed', 'allempty', 'long'])

            def ln():
                return 0 if mode == 'allempty' else rng.randint(0, 5) if mode == 'long' else rng.choice([0, 0, 1, 2, 3])
            cells = [[[(_rnd_float(rng) if isf else rng.randint(-1, 9)) for _ in range(ln())] for _ in range(C)]
                     for _ in range(R)]
            feats.append({'stype': name, 'kind': kind, 'cols': cols, 'dtype': 'float32' if isf else 'int64', 'cells': cells})
        elif kind == 'emb':
            widths = [rng.choice([1, 2, 3, 4]) for _ in range(C)]
            cells = [[[_rnd_float(rng, .05) for _ in range(w)] for w in widths] for _ in range(R)]
            feats.append({'stype': name, 'kind': kind, 'cols': cols, 'dtype': 'float32', 'widths': widths, 'cells': cells})
        else:
            lens = [[rng.choice([0, 1, 2, 3, 4]) for _ in range(C)] for _ in range(R)]
            ids = [[[rng.randint(0, 63) for _ in range(l)] for l in row] for row in lens]
            mask = [[[1 for _ in range(l)] for l in row] for row in lens]
            keys = {'input_ids': {'dtype': 'int64', 'cells': ids},
                    'attention_mask': {'dtype': 'bool', 'cells': mask}}
            if rng.random() < .2:
                keys['token_type_ids'] = {'dtype': 'int64', 'cells': [[[0 for _ in range(l)] for l in row] for row in lens]}
            feats.append({'stype': name, 'kind': kind, 'cols': cols, 'keys': keys})
    ymode = rng.choice(['none', 'none', 'float', 'int'])
    y = None
    if ymode == 'float':
        y = {'dtype': 'float32', 'data': [_rnd_float(rng, 0) for _ in range(R)]}
    elif ymode == 'int':
        y = {'dtype': 'int64', 'data': [rng.randint(0, 3) for _ in range(R)]}
    return {'R': R, 'feats': feats, 'y': y}


def _build_mnt(cells, R, C, dtype):
    dt = DTYPES[dtype]
    values, offset = [], [0]
    for row in cells:
        for cell in row:
            values += [fl(v) if dt.is_floating_point else v for v in cell]
            offset.append(len(values))
    return MNT(R, C, torch.tensor(values, dtype=dt), torch.tensor(offset, dtype=torch.long))


def build_direct_frame(spec):
    R = spec['R']
    feat_dict, names = {}, {}
    for f in spec['feats']:
        s = stype(f['stype'])
        C = len(f['cols'])
        names[s] = list(f['cols'])
        if f['kind'] == 'dense':
            feat_dict[s] = tensor_of(f['data'], f['dtype']).reshape(f['shape'])
        elif f['kind'] == 'nested':
            feat_dict[s] = _build_mnt(f['cells'], R, C, f['dtype'])
        elif f['kind'] == 'emb':
            W = sum(f['widths'])
            off = [0]
            for w in f['widths']:
                off.append(off[-1] + w)
            vals = torch.tensor([[fl(v) for cell in row for v in cell] for row in f['cells']],
                                dtype=DTYPES[f['dtype']]).reshape(R, W)
            feat_dict[s] = MET(R, C, vals, torch.tensor(off, dtype=torch.long))
        else:
            feat_dict[s] = {k: _build_mnt(v['cells'], R, C, v['dtype']) for k, v in f['keys'].items()}
    y = None
    if spec.get('y') is not None:
        y = tensor_of(spec['y']['data'], spec['y']['dtype'])
    return TensorFrame(feat_dict, names, y)


# ------------------------------------------------------------------------------- derivations (views, cats)
def gen_derive(rng, R, depth=0):
    """a chain of row selections / concatenations; returns (ops, resulting number of rows)"""
    ops = []
    n = R
    for _ in range(rng.choice([0, 1, 1, 1, 2, 3])):
        u = rng.random()
        if u < .35:
            a = rng.randint(0, n // 2)
            b = rng.randint(min(n, a + (n + 1) // 3), n)
            if rng.random() < .3 and n >= 5:
                a, b = 2, 5
            ops.append({'op': 'slice', 'a': a, 'b': b})
            n = b - a
        elif u < .6:
            if n == 0:
                idx = []
            elif rng.random() < .3 and n >= 4:
                idx = [3, 1, 1]
            else:
                idx = [rng.randrange(n) for _ in range(rng.choice([0, 1, 2, 3, 5, n, n + 2]))]
            ops.append({'op': 'index', 'idx': idx, 'as': rng.choice(['list', 'tensor'])})
            n = len(idx)
        elif u < .7:
            bs = [rng.random() < .7 for _ in range(n)]
            ops.append({'op': 'mask', 'bs': bs})
            n = sum(bs)
        elif u < .75:
            ops.append({'op': 'slice', 'a': 0, 'b': 0})
            n = 0
        elif depth == 0:
            parts = []
            tot = 0
            for _ in range(rng.choice([1, 2, 2, 3])):
                sub, k = gen_derive(rng, n, depth + 1)
                parts.append(sub)
                tot += k
            ops.append({'op': 'cat', 'parts': parts})
            n = tot
    return ops, n


def apply_derive(tf, ops):
    for op in ops:
        if op['op'] == 'slice':
            tf = tf[op['a']:op['b']]
        elif op['op'] == 'index':
            tf = tf[torch.tensor(op['idx'], dtype=torch.long)] if op.get('as') == 'tensor' else tf[list(op['idx'])]
        elif op['op'] == 'mask':
            tf = tf[torch.tensor(op['bs'], dtype=torch.bool)]
        elif op['op'] == 'cat':
            tf = torch_frame.cat([apply_derive(tf, sub) for sub in op['parts']], dim=0)
        else:
            raise AssertionError(op)
    return tf


def derive_labels(ops):
    labs = []
    for op in ops:
        labs.append(op['op'])
        if op['op'] == 'cat':
            for sub in op['parts']:
                labs += ['in-cat:' + l for l in derive_labels(sub)]
    return labs


# ------------------------------------------------------------------------------- statistics values
def gen_stats(rng, colnames):
    """hand-made col_stats holding python scalars, numpy scalars, lists, tuples, tensors, or None"""
    if rng.random() < .12:
        return None
    out = {}
    for c in colnames:
        d = {}
        for st in rng.sample(['MEAN', 'STD', 'QUANTILES', 'COUNT', 'MULTI_COUNT', 'YEAR_RANGE', 'EMB_DIM',
                              'NEWEST_TIME', 'OLDEST_TIME', 'MEDIAN_TIME'], rng.randint(0, 4)):
            d[st] = gen_stat_value(rng)
        out[c] = d
    return out


def gen_stat_value(rng, depth=0):
    u = rng.random()
    if u < .15:
        return {'py': 'float', 'v': _rnd_float(rng, .15)}
    if u < .25:
        return {'py': 'int', 'v': rng.randint(-5, 2000)}
    if u < .45:
        return {'np': rng.choice(['float64', 'float32', 'int64', 'int32']), 'v': rng.randint(-8, 8) * 0.5}
    if u < .55:
        return {'tensor': {'dtype': rng.choice(['float32', 'int64']), 'data': [rng.randint(-3, 9) for _ in range(rng.randint(0, 4))]}}
    if u < .6:
        return {'py': 'str', 'v': rng.choice(['a', 'b c', ''])}
    if u < .65:
        return {'py': 'none'}
    if depth < 2:
        items = [gen_stat_value(rng, depth + 1) for _ in range(rng.randint(0, 3))]
        return {'list': items} if rng.random() < .6 else {'tuple': items}
    return {'py': 'int', 'v': 1}


def build_stat_value(s):
    if 'py' in s:
        if s['py'] == 'float':
            return fl(s['v'])
        if s['py'] == 'none':
            return None
        return s['v']
    if 'np' in s:
        return getattr(np, s['np'])(s['v'])
    if 'tensor' in s:
        return torch.tensor(s['tensor']['data'], dtype=DTYPES[s['tensor']['dtype']])
    if 'list' in s:
        return [build_stat_value(v) for v in s['list']]
    return tuple(build_stat_value(v) for v in s['tuple'])


def build_stats(spec):
    if spec is None:
        return None
    return {c: {StatType[k]: build_stat_value(v) for k, v in d.items()} for c, d in spec.items()}


# ------------------------------------------------------------------------------- datasets
def _h(s, k):
    """a deterministic string hash (python's own `hash` is salted per process)"""
    x = 1469598103934665603
    for ch in s:
        x = ((x ^ ord(ch)) * 1099511628211) % (1 << 61)
    return (x >> (3 * k)) % 1000003


class StubEmbedder:
    """text / image embedder stub: list[str] -> [n, dim] float32, a pure function of each string"""

    def __init__(self, dim):
        self.dim = dim
        self.calls = 0

    def __call__(self, xs):
        self.calls += 1
        return torch.tensor([[(_h(str(s), k) % 33 - 16) * 0.25 for k in range(self.dim)] for s in xs],
                            dtype=torch.float32).reshape(len(xs), self.dim)


class StubTokenizer:
    """white-space tokenizer stub returning one dict of 1-D tensors per sentence (or the batched form)"""

    def __init__(self, batched=False):
        self.batched = batched
        self.calls = 0

    def __call__(self, xs):
        self.calls += 1
        ids = [torch.tensor([_h(t, 0) % 64 for t in str(s).split(' ') if t != ''], dtype=torch.long) for s in xs]
        masks = [torch.ones(len(i), dtype=torch.bool) for i in ids]
        if self.batched:
            L = max([len(i) for i in ids] + [1])
            return {'input_ids': torch.stack([torch.nn.functional.pad(i, (0, L - len(i)), value=-1) for i in ids]),
                    'attention_mask': torch.stack([torch.nn.functional.pad(m, (0, L - len(m)), value=False) for m in masks])}
        return [{'input_ids': i, 'attention_mask': m} for i, m in zip(ids, masks)]


WORDS = ['red', 'green', 'blue', 'cat', 'dog', 'tensor', 'frame', 'x', 'yy', 'zzz']
CATS = ['a', 'b', 'c', 'd', 'e']


def gen_column(rng, name, n, clean=False):
    """values of one data-frame column of the given stype (JSON-able)"""
    miss = 0 if clean else rng.choice([0, 0, .15])

    def m():
        return rng.random() < miss
    if name == 'numerical':
        return [None if m() else rng.randint(-40, 40) * 0.25 for _ in range(n)]
    if name == 'categorical':
        return [None if m() else rng.choice(CATS[:rng.choice([2, 3, 5])]) for _ in range(n)]
    if name == 'multicategorical':
        return [None if m() else '|'.join(rng.sample(CATS, rng.randint(0, 3))) for _ in range(n)]
    if name == 'sequence_numerical':
        return [None if m() else [rng.randint(-8, 8) * 0.5 for _ in range(rng.randint(0, 4))] for _ in range(n)]
    if name == 'timestamp':
        return [None if m() else f'{rng.randint(1995, 2030):04d}-{rng.randint(1, 12):02d}-{rng.randint(1, 28):02d}'
                for _ in range(n)]
    if name in ('text_embedded', 'text_tokenized'):
        return [' '.join(rng.choice(WORDS) for _ in range(rng.randint(1, 4))) for _ in range(n)]
    if name == 'image_embedded':
        return [f'img/{rng.choice(WORDS)}_{rng.randint(0, 9)}.png' for _ in range(n)]
    if name == 'embedding':
        return None     # filled by the caller (fixed width per column)
    raise AssertionError(name)


def gen_group(rng, gid):
    """constructor arguments + data of one family of datasets (they share args, hence cache files)"""
    n = rng.choice([1, 2, 3, 4, 6, 8])
    k = rng.choice([1, 2, 3, 4, 5, 9])
    names = rng.sample(ALL_STYPES, k)
    if rng.random() < .35 and 'text_tokenized' not in names:
        names.append('text_tokenized')
    if rng.random() < .35 and 'text_embedded' not in names:
        names.append('text_embedded')
    cols = []
    for name in names:
        for r in range(rng.choice([1, 1, 2])):
            col = {'name': f'{name[:4]}{r}_{gid}', 'stype': name}
            if name == 'embedding':
                w = rng.choice([1, 2, 3])
                col['values'] = [[rng.randint(-8, 8) * 0.25 for _ in range(w)] for _ in range(n)]
                col['new'] = [[rng.randint(-8, 8) * 0.25 for _ in range(w)] for _ in range(3)]
            else:
                col['values'] = gen_column(rng, name, n)
                col['new'] = gen_column(rng, name, 3)
            cols.append(col)
    rng.shuffle(cols)
    target = None
    tmode = rng.choice(['none', 'none', 'num', 'cat'])
    if tmode == 'num':
        target = {'name': f'y_{gid}', 'stype': 'numerical', 'values': gen_column(rng, 'numerical', n, clean=True),
                  'new': gen_column(rng, 'numerical', 3, clean=True)}
    elif tmode == 'cat':
        vals = [rng.choice(CATS[:3]) for _ in range(n)]
        target = {'name': f'y_{gid}', 'stype': 'categorical', 'values': vals,
                  'new': [rng.choice(sorted(set(vals))) for _ in range(3)]}
    return {'gid': gid, 'n': n, 'cols': cols, 'target': target, 'emb_dim': rng.choice([1, 2, 4]),
            'img_dim': rng.choice([1, 3]), 'tok_batched': rng.random() < .3,
            'tok_batch_size': rng.choice([None, None, 2]), 'emb_batch_size': rng.choice([None, None, 2]),
            'new_with_target': rng.random() < .5}


def _series(values, name):
    if name in ('numerical',):
        return pd.Series([float('nan') if v is None else v for v in values], dtype='float64')
    return pd.Series(list(values), dtype=object)


def group_df(group, which='values'):
    cols = list(group['cols'])
    if group['target'] is not None and (which == 'values' or group.get('new_with_target')):
        cols = cols + [group['target']]
    return pd.DataFrame({c['name']: _series(c[which], c['stype']) for c in cols})


class Unusable:
    """stands in for a data frame that must not be needed: any use raises"""

    def __getattr__(self, item):
        raise RuntimeError(f'the data frame was touched ({item})')

    def __getitem__(self, item):
        raise RuntimeError('the data frame was touched ([])')

    def __len__(self):
        raise RuntimeError('the data frame was touched (len)')


def make_dataset(group, usable=True):
    """a fresh, unmaterialised Dataset built from the group's constructor arguments"""
    df = group_df(group)
    col_to_stype = {c['name']: stype(c['stype']) for c in group['cols']}
    tgt = None
    if group['target'] is not None:
        tgt = group['target']['name']
        col_to_stype[tgt] = stype(group['target']['stype'])
    kw = {}
    names = {c['stype'] for c in group['cols']}
    if 'text_embedded' in names:
        kw['col_to_text_embedder_cfg'] = TextEmbedderConfig(text_embedder=StubEmbedder(group['emb_dim']),
                                                            batch_size=group['emb_batch_size'])
    if 'image_embedded' in names:
        kw['col_to_image_embedder_cfg'] = ImageEmbedderConfig(image_embedder=StubEmbedder(group['img_dim']),
                                                              batch_size=group['emb_batch_size'])
    if 'text_tokenized' in names:
        kw['col_to_text_tokenizer_cfg'] = TextTokenizerConfig(text_tokenizer=StubTokenizer(group['tok_batched']),
                                                              batch_size=group['tok_batch_size'])
    ds = Dataset(df, col_to_stype, target_col=tgt, col_to_sep='|', col_to_time_format='%Y-%m-%d', **kw)
    if not usable:
        ds.df = Unusable()
    return ds


def quiet(fn, *a, **k):
    """run library code with its warnings (weights_only fallback, pandas) silenced"""
    with warnings.catch_warnings():
        warnings.simplefilter('ignore')
        return fn(*a, **k)


def canon_result(tf, stats):
    return {'frame': canon_frame(tf), 'stats': canon_stats(stats)}


def is_nan_bits(b):
    return math.isnan(core.bits_float(b))

"""Generators, builders, canonicalisers and the direct oracle parts for C11 (save/load, cache protocol).

Everything a case needs is in its JSON spec (explicit numbers, no hidden randomness), so a replay file
rebuilds exactly the same real objects.  Floats are written as multiples of 0.25 (float32-exact) or the
string "nan"."""
from __future__ import annotations

import math
import os
import warnings

import numpy as np
import pandas as pd
import torch

import torch_frame
from torch_frame import TensorFrame, stype
from torch_frame.config import ImageEmbedderConfig, TextEmbedderConfig, TextTokenizerConfig
from torch_frame.data import Dataset
from torch_frame.data import MultiEmbeddingTensor as MET
from torch_frame.data import MultiNestedTensor as MNT
from torch_frame.data.stats import StatType

from harness import core

# the mappers wrap their mini-batch loops in tqdm progress bars (stderr noise only): silence them in this process
import torch_frame.data.mapper as _mapper_mod  # noqa: E402
_mapper_mod.tqdm = lambda it, **kw: it

DENSE = ['numerical', 'categorical', 'timestamp']
NESTED = ['multicategorical', 'sequence_numerical']
EMB = ['text_embedded', 'image_embedded', 'embedding']
DICT = ['text_tokenized']
ALL_STYPES = [s.name for s in stype]
DTYPES = {'float32': torch.float32, 'float64': torch.float64, 'int64': torch.int64, 'int32': torch.int32,
          'bool': torch.bool}


def kind_of(name):
    """storage kind of an stype, read from the LIVE flags (not from a list of mine)."""
    s = stype(name)
    if s.use_multi_nested_tensor:
        return 'nested'
    if s.use_multi_embedding_tensor:
        return 'emb'
    if s.use_dict_multi_nested_tensor:
        return 'dict'
    return 'dense'


# ------------------------------------------------------------------------------- scalar coding
def fl(x):
    return float('nan') if x == 'nan' else float(x)


def enc_scalar(x, is_float):
    """model-side integer of one tensor element: ints as they are, floats as float64 bit pattern"""
    if is_float:
        return core.float_bits(x)
    return int(x)


def tensor_of(values, dtype):
    dt = DTYPES[dtype]
    if dt.is_floating_point:
        def conv(v):
            return [conv(u) for u in v] if isinstance(v, list) else fl(v)
        return torch.tensor(conv(values), dtype=dt)
    return torch.tensor(values, dtype=dt)


def canon_tensor(t):
    isf = t.dtype.is_floating_point
    return {'dtype': str(t.dtype).replace('torch.', ''), 'shape': [int(s) for s in t.shape],
            'data': [enc_scalar(x, isf) for x in t.detach().reshape(-1).tolist()]}


def canon_mnt(m):
    isf = m.values.dtype.is_floating_point
    return {'k': 'nested', 'dtype': str(m.values.dtype).replace('torch.', ''), 'R': int(m.num_rows),
            'C': int(m.num_cols),
            'values': [enc_scalar(x, isf) for x in m.values.reshape(-1).tolist()] if m.values.dim() == 1 else 'bad-ndim',
            'offset': [int(x) for x in m.offset.tolist()]}


def canon_met(m):
    isf = m.values.dtype.is_floating_point
    if m.values.dim() != 2:
        return {'k': 'emb', 'dtype': str(m.values.dtype).replace('torch.', ''), 'R': int(m.num_rows),
                'C': int(m.num_cols), 'W': -1, 'values': 'bad-ndim', 'offset': [int(x) for x in m.offset.tolist()]}
    return {'k': 'emb', 'dtype': str(m.values.dtype).replace('torch.', ''), 'R': int(m.num_rows),
            'C': int(m.num_cols), 'W': int(m.values.shape[1]),
            'values': [[enc_scalar(x, isf) for x in row] for row in m.values.tolist()],
            'offset': [int(x) for x in m.offset.tolist()]}


def canon_feat(f):
    if isinstance(f, torch.Tensor):
        return {'k': 'dense', 't': canon_tensor(f)}
    if isinstance(f, MNT):
        return canon_mnt(f)
    if isinstance(f, MET):
        return canon_met(f)
    if isinstance(f, dict):
        return {'k': 'dict', 'items': [[str(k), canon_mnt(v)] for k, v in f.items()]}
    return {'k': 'unknown:' + type(f).__name__}


def canon_frame(tf):
    """the abstract value of a real TensorFrame in the encoding of Drivers/C11.lean (dict order kept)"""
    return {'feats': [[s.name, canon_feat(f)] for s, f in tf.feat_dict.items()],
            'cols': [[s.name, [str(c) for c in cols]] for s, cols in tf.col_names_dict.items()],
            'y': None if tf.y is None else canon_tensor(tf.y)}


def extras_frame(tf):
    """observables outside the Lean value: offset dtypes, devices, explicit num_rows"""
    out = {'num_rows': int(tf.num_rows), '_num_rows': tf._num_rows}
    for s, f in tf.feat_dict.items():
        parts = list(f.values()) if isinstance(f, dict) else [f]
        out[s.name] = [[str(getattr(p, 'offset', torch.zeros(0, dtype=torch.long)).dtype),
                        str(p.device), type(p).__name__] for p in parts]
    return out


CELL_BUDGET = 6000


def cell_rows(R, C):
    """rows read cell by cell: all of them, or (beyond CELL_BUDGET cells) the first and last 48 and a stride"""
    if R * max(C, 1) <= CELL_BUDGET:
        return list(range(R))
    k = max(1, CELL_BUDGET // max(C, 1) - 96)
    step = max(1, R // k)
    return sorted(set(list(range(min(48, R))) + list(range(max(0, R - 48), R)) + list(range(0, R, step))))


def cell_cols(C):
    if C <= 600:
        return list(range(C))
    return sorted(set(list(range(300)) + list(range(C - 300, C))))


def cells_frame(tf):
    """cell-wise reading of a frame through the public accessors (`feat[i, j]`), keys sorted:
    a second, representation-independent view used by the oracle.  (Containers with more than CELL_BUDGET cells
    are read at a deterministic sample of rows; `canon_frame` always compares every stored element.)"""
    out = {}
    for s in sorted(tf.feat_dict, key=lambda s: s.name):
        f = tf.feat_dict[s]

        def cells(m):
            isf = m.values.dtype.is_floating_point
            cols = cell_cols(m.num_cols)
            rows = cell_rows(m.num_rows, len(cols))
            return [[i, [[enc_scalar(x, isf) for x in m[i, j].reshape(-1).tolist()] for j in cols]] for i in rows]
        if isinstance(f, torch.Tensor):
            isf = f.dtype.is_floating_point
            out[s.name] = [str(f.dtype), list(f.shape), [enc_scalar(x, isf) for x in f.reshape(-1).tolist()]]
        elif isinstance(f, dict):
            out[s.name] = {k: [str(f[k].values.dtype), cells(f[k])] for k in sorted(f)}
        else:
            out[s.name] = [str(f.values.dtype), cells(f)]
    out['__cols__'] = {s.name: list(c) for s, c in tf.col_names_dict.items()}
    out['__y__'] = None if tf.y is None else canon_tensor(tf.y)
    out['__len__'] = len(tf)
    return out


def canon_stats(x):
    """deep, type-exact canonical form of a statistics value (dict entries sorted)"""
    if x is None:
        return None
    if isinstance(x, StatType):
        return {'stat': x.name}
    if isinstance(x, stype):
        return {'stype': x.name}
    if isinstance(x, bool):
        return {'b': x}
    if isinstance(x, np.generic):
        if isinstance(x, np.floating):
            return {'np': str(x.dtype), 'v': core.float_bits(float(x))}
        if isinstance(x, np.bool_):
            return {'np': 'bool', 'v': int(bool(x))}
        if isinstance(x, np.integer):
            return {'np': str(x.dtype), 'v': int(x)}
        return {'np': str(x.dtype), 'v': repr(x)}
    if isinstance(x, int):
        return {'i': x}
    if isinstance(x, float):
        return {'f': core.float_bits(x)}
    if isinstance(x, str):
        return {'s': x}
    if isinstance(x, list):
        return {'l': [canon_stats(v) for v in x]}
    if isinstance(x, tuple):
        return {'t': [canon_stats(v) for v in x]}
    if isinstance(x, dict):
        items = [[canon_stats(k), canon_stats(v)] for k, v in x.items()]
        items.sort(key=lambda kv: core.stable_hash(kv[0]))
        return {'d': items}
    if isinstance(x, torch.Tensor):
        return {'T': canon_tensor(x)}
    if isinstance(x, np.ndarray):
        return {'nd': str(x.dtype), 'shape': list(x.shape), 'v': [canon_stats(v) for v in x.reshape(-1).tolist()]}
    return {'other': type(x).__name__, 'repr': repr(x)}


def canon_serialized(raw):
    """canonical form of the python value `(tf_dict, col_stats)` actually found in a written file"""
    tf_dict, col_stats = raw

    def mt(d):
        v = d['values']
        isf = v.dtype.is_floating_point
        if v.dim() == 1:
            vals = {'ndim': 1, 'data': [enc_scalar(x, isf) for x in v.tolist()]}
        else:
            vals = {'ndim': 2, 'W': int(v.shape[1]), 'data': [[enc_scalar(x, isf) for x in row] for row in v.tolist()]}
        return {'num_rows': int(d['num_rows']), 'num_cols': int(d['num_cols']),
                'dtype': str(v.dtype).replace('torch.', ''), 'values': vals,
                'offset': [int(x) for x in d['offset'].tolist()]}

    def ser(x):
        if isinstance(x, torch.Tensor):
            return {'k': 'tensor', 't': canon_tensor(x)}
        if isinstance(x, dict) and set(x.keys()) == {'num_rows', 'num_cols', 'values', 'offset'}:
            return {'k': 'mt', 'd': mt(x)}
        if isinstance(x, dict):
            return {'k': 'dictMT', 'items': [[str(k), mt(v)] for k, v in x.items()]}
        return {'k': 'unknown:' + type(x).__name__}
    return {'y': None if tf_dict['y'] is None else canon_tensor(tf_dict['y']),
            'col_names_dict': [[s.name, list(c)] for s, c in tf_dict['col_names_dict'].items()],
            'feat_serialized_dict': [[s.name, ser(x)] for s, x in tf_dict['feat_serialized_dict'].items()],
            'col_stats': canon_stats(col_stats)}


# ------------------------------------------------------------------------------- direct frames
# payloads at the edges, written as strings (JSON has no inf / -0.0): exact in float32 ...
SPECIAL_FLOATS = ['inf', '-inf', '-0.0', '16777216.0', '16777218.0', '-2147483648.0', '3e38', '1e-38', '-1.0', '0.5']
# ... and float64-only ones (rounded when the container is float32, kept when it is float64)
SPECIAL_F64 = ['0.1', '0.3333333333333333', '16777217.0', '1700000001.0', '1e39', '-1e39', '1.7e308', '5e-324']


def _rnd_float(rng, nan_p=.1, special_p=.06):
    u = rng.random()
    if u < nan_p:
        return 'nan'
    if u < nan_p + special_p:
        return rng.choice(SPECIAL_FLOATS + SPECIAL_F64)
    return rng.randint(-20, 20) * 0.25


def gen_direct_frame(rng, R=None, stypes=None):
    """an abstract TensorFrame: any subset of the nine stypes as keys, each with its storage kind"""
    R = rng.choice([0, 1, 2, 3, 5, 6, 6, 8, 10]) if R is None else R
    if stypes is None:
        k = rng.choice([1, 2, 3, 3, 4, 5, 9])
        stypes = rng.sample(ALL_STYPES, k)
    feats = []
    n = 0
    for name in stypes:
        C = rng.choice([1, 1, 2, 3])
        cols = [f'{name[:3]}_{n + i}' for i in range(C)]
        n += C
        kind = kind_of(name)
        if kind == 'dense':
            if name == 'timestamp':
                data = [[[rng.randint(-1, 60) for _ in range(7)] for _ in range(C)] for _ in range(R)]
                feats.append({'stype': name, 'kind': kind, 'cols': cols, 'dtype': 'int64', 'shape': [R, C, 7], 'data': data})
            elif name == 'categorical':
                data = [[rng.randint(-1, 5) for _ in range(C)] for _ in range(R)]
                feats.append({'stype': name, 'kind': kind, 'cols': cols, 'dtype': 'int64', 'shape': [R, C], 'data': data})
            else:
                dt = rng.choice(['float32', 'float32', 'float64'])
                data = [[_rnd_float(rng) for _ in range(C)] for _ in range(R)]
                feats.append({'stype': name, 'kind': kind, 'cols': cols, 'dtype': dt, 'shape': [R, C], 'data': data})
        elif kind == 'nested':
            isf = name == 'sequence_numerical'
            mode = rng.choice(['mixed', 'mixed', 'allempty', 'long'])

            def ln():
                return 0 if mode == 'allempty' else rng.randint(0, 5) if mode == 'long' else rng.choice([0, 0, 1, 2, 3])
            cells = [[[(_rnd_float(rng) if isf else rng.randint(-1, 9)) for _ in range(ln())] for _ in range(C)]
                     for _ in range(R)]
            dt = rng.choice(['float32', 'float32', 'float32', 'float64']) if isf else rng.choice(['int64', 'int64', 'int64', 'int32'])
            feats.append({'stype': name, 'kind': kind, 'cols': cols, 'dtype': dt, 'cells': cells})
        elif kind == 'emb':
            widths = [rng.choice([1, 2, 3, 4]) for _ in range(C)]
            cells = [[[_rnd_float(rng, .05) for _ in range(w)] for w in widths] for _ in range(R)]
            feats.append({'stype': name, 'kind': kind, 'cols': cols, 'dtype': rng.choice(['float32', 'float32', 'float32', 'float64']),
                          'widths': widths, 'cells': cells})
        else:
            lens = [[rng.choice([0, 1, 2, 3, 4]) for _ in range(C)] for _ in range(R)]
            feats.append({'stype': name, 'kind': kind, 'cols': cols, 'keys': gen_dict_keys(rng, lens)})
    ymode = rng.choice(['none', 'none', 'float', 'int'])
    y = None
    if ymode == 'float':
        y = {'dtype': rng.choice(['float32', 'float32', 'float64']), 'data': [_rnd_float(rng, .03) for _ in range(R)]}
    elif ymode == 'int':
        dt = rng.choice(['int64', 'int64', 'int32', 'bool'])
        y = {'dtype': dt, 'data': [rng.randint(0, 1 if dt == 'bool' else 3) for _ in range(R)]}
    spec = {'R': R, 'feats': feats, 'y': y}
    # aliasing between the tensors of one frame (legal: nothing requires them to own their storage)
    alias = []
    if rng.random() < .12:
        alias.append('y-is-a-view-of-a-feature')
    if rng.random() < .12:
        alias.append('tokenizer-outputs-share-one-offset-object')
    if rng.random() < .08:
        alias.append('two-containers-share-one-offset-object')
    if alias:
        spec['alias'] = alias
    return spec


KEY_ALIGN = ['same', 'same', 'same', 'perm', 'shift', 'indep', 'indep', 'empty']


def relens(rng, lens, mode):
    """per-cell lengths of a further tokenizer output, given those of the first: the same (token-aligned outputs),
    the same multiset on other cells (equal total, different offsets), tokens moved between cells (equal total),
    independent lengths, or nothing at all"""
    R = len(lens)
    C = len(lens[0]) if R else 0
    flat = [l for row in lens for l in row]
    if mode == 'perm':
        flat = flat[:]
        rng.shuffle(flat)
    elif mode == 'shift':
        flat = flat[:]
        for _ in range(rng.randint(1, 3)):
            src = [i for i, l in enumerate(flat) if l > 0]
            if not src or len(flat) < 2:
                break
            i = rng.choice(src)
            j = rng.choice([k for k in range(len(flat)) if k != i])
            flat[i] -= 1
            flat[j] += 1
    elif mode == 'indep':
        flat = [rng.choice([0, 1, 2, 3, 5]) for _ in flat]
    elif mode == 'empty':
        flat = [0 for _ in flat]
    return [flat[i * C:(i + 1) * C] for i in range(R)]


def gen_dict_keys(rng, lens):
    """the outputs of a tokenizer for one text_tokenized feature: 1-4 keys, each a [R, C] grid of cells"""
    def cells(ls, fn):
        return [[[fn() for _ in range(l)] for l in row] for row in ls]
    keys = {'input_ids': {'dtype': 'int64', 'cells': cells(lens, lambda: rng.randint(0, 63))}}
    extra = [('attention_mask', 'bool', lambda: 1), ('token_type_ids', 'int64', lambda: rng.randint(0, 1)),
             ('context_ids', 'int64', lambda: rng.randint(-1, 63)), ('char_ids', 'int32', lambda: rng.randint(0, 255))]
    u = rng.random()
    n_extra = 0 if u < .08 else 1 if u < .65 else 2 if u < .9 else 3
    chosen = [extra[0]] + rng.sample(extra[1:], n_extra - 1) if n_extra else []
    for nm, dt, fn in chosen:
        mode = rng.choice(KEY_ALIGN)
        keys[nm] = {'dtype': dt, 'cells': cells(relens(rng, lens, mode), fn), 'align': mode}
    if rng.random() < .25:      # insertion order of the keys
        items = list(keys.items())
        rng.shuffle(items)
        keys = dict(items)
    return keys


def _build_mnt(cells, R, C, dtype):
    dt = DTYPES[dtype]
    values, offset = [], [0]
    for row in cells:
        for cell in row:
            values += [fl(v) if dt.is_floating_point else v for v in cell]
            offset.append(len(values))
    return MNT(R, C, torch.tensor(values, dtype=dt), torch.tensor(offset, dtype=torch.long))


LAST_BUILD = {'alias': []}      # what the last build_direct_frame call actually aliased (for the histogram)


def build_direct_frame(spec):
    R = spec['R']
    feat_dict, names = {}, {}
    for f in spec['feats']:
        s = stype(f['stype'])
        C = len(f['cols'])
        names[s] = list(f['cols'])
        if f['kind'] == 'dense':
            feat_dict[s] = tensor_of(f['data'], f['dtype']).reshape(f['shape'])
        elif f['kind'] == 'nested':
            feat_dict[s] = _build_mnt(f['cells'], R, C, f['dtype'])
        elif f['kind'] == 'emb':
            W = sum(f['widths'])
            off = [0]
            for w in f['widths']:
                off.append(off[-1] + w)
            vals = torch.tensor([[fl(v) for cell in row for v in cell] for row in f['cells']],
                                dtype=DTYPES[f['dtype']]).reshape(R, W)
            feat_dict[s] = MET(R, C, vals, torch.tensor(off, dtype=torch.long))
        else:
            feat_dict[s] = {k: _build_mnt(v['cells'], R, C, v['dtype']) for k, v in f['keys'].items()}
    y = None
    if spec.get('y') is not None:
        y = tensor_of(spec['y']['data'], spec['y']['dtype'])
    done = []
    for a in spec.get('alias', []):
        if a == 'y-is-a-view-of-a-feature':
            # the target is a (strided) view into the storage of a dense float feature
            for st, f in feat_dict.items():
                if isinstance(f, torch.Tensor) and f.dim() == 2 and f.dtype.is_floating_point and f.shape[1] >= 1:
                    y = f[:, f.shape[1] - 1]
                    done.append(a)
                    break
        elif a == 'tokenizer-outputs-share-one-offset-object':
            for st, f in feat_dict.items():
                if isinstance(f, dict) and len(f) >= 2:
                    ks = list(f)
                    for k in ks[1:]:
                        if torch.equal(f[k].offset, f[ks[0]].offset):
                            f[k] = MNT(f[k].num_rows, f[k].num_cols, f[k].values, f[ks[0]].offset)
                            done.append(a)
        elif a == 'two-containers-share-one-offset-object':
            mets = [(st, f) for st, f in feat_dict.items() if isinstance(f, MET)]
            for (s1, f1), (s2, f2) in zip(mets, mets[1:]):
                if torch.equal(f1.offset, f2.offset):
                    feat_dict[s2] = MET(f2.num_rows, f2.num_cols, f2.values, f1.offset)
                    done.append(a)
    LAST_BUILD['alias'] = sorted(set(done))
    return TensorFrame(feat_dict, names, y)


# ------------------------------------------------------------------------------- frames at scale
# A large frame is described by its dimensions and one explicit seed per container; its payload is drawn from
# numpy's frozen legacy generator `RandomState(seed)` (same stream on every numpy version), so the JSON spec still
# determines the real objects exactly.

def _compose(rng, total, parts):
    """`parts` positive integers summing to `total`"""
    parts = max(1, min(parts, total))
    cuts = sorted(rng.sample(range(1, total), parts - 1)) if parts > 1 else []
    return [b - a for a, b in zip([0] + cuts, cuts + [total])]


def gen_big_frame(rng, level):
    """a TensorFrame with at least one dimension from the size ladder: rows ('tall'), columns of one container
    ('wide': 257+ columns), embedding width / cell length ('deep'); several containers share the rows"""
    from harness import stress
    lad = stress.ladder(level)
    cap = (1 << 17, 1 << 21, 1 << 24)[min(level, 2)]        # stored elements per container

    def rung(top_p=.6, limit=None):
        xs = [x for x in lad if limit is None or x <= limit] or [lad[0]]
        x = rng.choice(xs[-3:]) if rng.random() < top_p else rng.choice(xs)
        return x + rng.choice([0, 0, 1, 2])
    shape = rng.choice(['tall', 'tall', 'tall', 'wide', 'deep'])
    R = rng.choice([1, 2, 3, 5, 8, 13, 21, 40])
    if shape == 'tall':
        R = lad[-1] + rng.choice([0, 0, 1, 2]) if rng.random() < .45 else rung()
    k = rng.choice([1, 2, 2, 3])
    names = rng.sample(ALL_STYPES, k)
    if rng.random() < .6 and not any(kind_of(n) in ('emb', 'nested', 'dict') for n in names):
        names[0] = rng.choice(EMB + NESTED + DICT)
    feats = []
    ncol = 0
    scaled = rng.randrange(len(names))       # the container that carries the 'wide' / 'deep' dimension
    for idx, name in enumerate(names):
        kind = kind_of(name)
        per_cell = 7 if name == 'timestamp' else 1
        C = rng.choice([1, 1, 2, 3])
        if shape == 'wide' and idx == scaled:
            C = rung(.5, limit=max(17, min(4099, cap // max(R, 1) // per_cell)))
        cols = [f'{name[:3]}_{ncol + i}' for i in range(C)]
        ncol += C
        f = {'stype': name, 'kind': kind, 'cols': cols, 'seed': rng.randrange(2 ** 31)}
        room = max(1, cap // max(R * C, 1))                 # stored elements per cell that fit under the cap
        if kind == 'dense':
            f['dtype'] = 'int64' if name in ('timestamp', 'categorical') else rng.choice(['float32', 'float32', 'float64'])
            f['shape'] = [R, C, 7] if name == 'timestamp' else [R, C]
        elif kind == 'emb':
            f['dtype'] = 'float32'
            if (shape == 'deep' and idx == scaled) or (shape == 'tall' and rng.random() < .7):
                # as wide as the storage cap allows (every second time), else any rung
                W = rung(.7, limit=max(17, min(room * C, 4099 if shape == 'deep' else 259)))
                if rng.random() < .5:
                    W = max([x for x in lad if x <= max(17, min(room * C, 4099 if shape == 'deep' else 259))] or [17])
            else:
                W = sum(rng.choice([1, 2, 3, 4]) for _ in range(C))
            W = max(W, C)
            f['widths'] = _compose(rng, W, C) if C <= 64 else [1 + (W - C if i == 0 else 0) for i in range(C)]
        else:
            f['dtype'] = 'float32' if name == 'sequence_numerical' else 'int64'
            f['maxlen'] = rng.choice([x for x in (1, 3, 6, 12, 40) if x <= max(1, room)])
            f['long'] = []
            if (shape == 'deep' and idx == scaled) or rng.random() < .3:
                for _ in range(rng.choice([1, 1, 2])):
                    f['long'].append([rng.randrange(R), rng.randrange(C),
                                      rung(.6, limit=max(17, min(cap // 4, 65539)))])
            if kind == 'dict':
                f['keys'] = [['input_ids', 'int64', 'first']]
                for nm, dt in rng.sample([('attention_mask', 'bool'), ('token_type_ids', 'int64'),
                                          ('context_ids', 'int64')], rng.choice([1, 1, 2])):
                    f['keys'].append([nm, dt, rng.choice(KEY_ALIGN)])
        feats.append(f)
    y = None
    if rng.random() < .5:
        y = {'dtype': rng.choice(['float32', 'int64']), 'seed': rng.randrange(2 ** 31)}
    return {'R': R, 'shape': shape, 'feats': feats, 'y': y}


def _rs_float(rs, shape, dtype, nan_p=.05):
    x = rs.randint(-20, 21, size=shape).astype(np.float64) * 0.25
    if nan_p:
        x[rs.random_sample(size=shape) < nan_p] = np.nan
    return torch.from_numpy(x).to(DTYPES[dtype])


def _rs_lens(rs, R, C, maxlen, long):
    lens = rs.randint(0, maxlen + 1, size=(R, C))
    lens[rs.random_sample(size=(R, C)) < .25] = 0
    for i, j, ln in long:
        lens[i, j] = ln
    return lens


def _rs_mnt(rs, lens, dtype):
    R, C = lens.shape
    total = int(lens.sum())
    if dtype == 'float32':
        vals = _rs_float(rs, (total,), dtype)
    elif dtype == 'bool':
        vals = torch.ones(total, dtype=torch.bool)
    else:
        vals = torch.from_numpy(rs.randint(-1, 64, size=(total,))).to(DTYPES[dtype])
    off = torch.zeros(R * C + 1, dtype=torch.long)
    off[1:] = torch.from_numpy(np.cumsum(lens.reshape(-1)))
    return MNT(R, C, vals, off)


def _rs_relens(rs, lens, mode):
    flat = lens.reshape(-1).copy()
    if mode == 'perm':
        rs.shuffle(flat)
    elif mode == 'shift' and len(flat) >= 2 and flat.sum() > 0:
        for _ in range(3):
            src = np.nonzero(flat)[0]
            i = int(src[rs.randint(len(src))])
            j = (i + 1 + rs.randint(len(flat) - 1)) % len(flat)
            flat[i] -= 1
            flat[j] += 1
    elif mode == 'indep':
        flat = rs.randint(0, max(2, int(flat.max()) + 1) if len(flat) and flat.max() < 64 else 4, size=flat.shape)
    elif mode == 'empty':
        flat = np.zeros_like(flat)
    return flat.reshape(lens.shape)


def build_big_frame(spec):
    R = spec['R']
    feat_dict, names = {}, {}
    for f in spec['feats']:
        st = stype(f['stype'])
        C = len(f['cols'])
        names[st] = list(f['cols'])
        rs = np.random.RandomState(f['seed'])
        if f['kind'] == 'dense':
            if f['stype'] == 'timestamp':
                feat_dict[st] = torch.from_numpy(rs.randint(-1, 61, size=(R, C, 7))).to(torch.int64)
            elif f['stype'] == 'categorical':
                feat_dict[st] = torch.from_numpy(rs.randint(-1, 6, size=(R, C))).to(torch.int64)
            else:
                feat_dict[st] = _rs_float(rs, (R, C), f['dtype'], .1)
        elif f['kind'] == 'emb':
            W = sum(f['widths'])
            off = torch.tensor([0] + list(np.cumsum(f['widths'])), dtype=torch.long)
            feat_dict[st] = MET(R, C, _rs_float(rs, (R, W), 'float32', .02), off)
        elif f['kind'] == 'nested':
            feat_dict[st] = _rs_mnt(rs, _rs_lens(rs, R, C, f['maxlen'], f['long']), f['dtype'])
        else:
            lens = _rs_lens(rs, R, C, f['maxlen'], f['long'])
            d = {}
            for nm, dt, mode in f['keys']:
                d[nm] = _rs_mnt(rs, lens if mode in ('first', 'same') else _rs_relens(rs, lens, mode), dt)
            feat_dict[st] = d
    y = None
    if spec.get('y') is not None:
        rs = np.random.RandomState(spec['y']['seed'])
        y = _rs_float(rs, (R,), 'float32', 0) if spec['y']['dtype'] == 'float32' else \
            torch.from_numpy(rs.randint(0, 4, size=(R,))).to(torch.int64)
    return TensorFrame(feat_dict, names, y)


def big_row_cost(spec):
    """(stored elements per row, cells per row read one by one) of a large frame - an estimate used to keep the
    frame that is saved (a view of the large one) within what is shipped to the Lean model"""
    el = cells = 0
    for f in spec['feats']:
        C = len(f['cols'])
        if f['kind'] == 'dense':
            el += C * (7 if f['stype'] == 'timestamp' else 1)
        elif f['kind'] == 'emb':
            el += sum(f['widths'])
            cells += C
        else:
            nk = len(f.get('keys', [0]))
            el += nk * (C * (f['maxlen'] + 1) // 2)
            cells += C * nk
    return max(el, 1), cells


def gen_big_derive(rng, spec, level, el_budget=120000):
    """a view (row slice / column slice / both) or a selection of the large frame whose own size stays within the
    budget; long cells may make the estimate too low, the caller checks the real size"""
    from harness import stress
    R = spec['R']
    el, cells = big_row_cost(spec)
    longest = sum(ln for f in spec['feats'] for _, _, ln in f.get('long', []))
    ops = []
    # column slices first or last (the order changes which tensor is the view of which)
    def colslice():
        sel = {}
        for f in spec['feats']:
            C = len(f['cols'])
            if C >= 2 and rng.random() < .7:
                a = rng.randint(0, C - 1)
                b = rng.randint(a + 1, C) if rng.random() < .7 else min(C, a + rng.choice([1, 2, 17]))
                if (a, b) != (0, C):
                    sel[f['stype']] = [a, b]
        return {'op': 'colslice', 'sel': sel} if sel else None
    cs = colslice() if rng.random() < .45 else None
    cs_first = rng.random() < .5
    if cs and cs_first:
        ops.append(cs)
    mmax = max(1, min(R, (el_budget - min(longest, el_budget // 2)) // el))
    u = rng.random()
    small = rng.choice([0, 1, 2, 3, 5, 8, 12])
    rungs = [x for x in stress.ladder(level) if x <= mmax]
    m = min(R, rng.choice([small, mmax] + rungs + rungs))
    # rows vs width of the widest embedding container: fewer, as many, more (each about as often)
    widest = max([sum(f['widths']) for f in spec['feats'] if f['kind'] == 'emb'] or [0])
    if widest and rng.random() < .6:
        pick = rng.choice(['fewer', 'equal', 'more', 'more'])
        more = [x + j for x in stress.ladder(level) for j in (0, 1, 2) if widest < x + j <= min(mmax, R)]
        if pick == 'more' and more:
            m = rng.choice(more[:6])
        elif pick == 'equal' and widest <= min(mmax, R):
            m = widest
        elif pick == 'fewer':
            m = min(m, max(widest - 1, 0), R)
    if spec['feats'] and any(f.get('long') for f in spec['feats']) and rng.random() < .5 and R > 0:
        # keep a row with a long cell inside the slice
        i = rng.choice([l for f in spec['feats'] for l in f.get('long', [])])[0]
        a = max(0, min(i - rng.randint(0, max(m - 1, 0)), R - m))
    else:
        a = rng.choice([0, R - m, rng.randint(0, R - m)])
    if m == R and u < .5:
        pass                                                   # the frame itself
    elif u < .55:
        ops.append({'op': 'slice', 'a': a, 'b': a + m})        # contiguous view
    elif u < .65:
        s = rng.choice([2, 3, 17])
        ops.append({'op': 'slice', 'a': a, 'b': min(R, a + m * s), 's': s})
    elif u < .85:
        idx = sorted(rng.sample(range(R), m)) if rng.random() < .5 else [rng.randrange(R) for _ in range(m)]
        ops.append({'op': 'index', 'idx': idx, 'as': rng.choice(['list', 'tensor'])})
    else:
        ops.append({'op': 'slice', 'a': a, 'b': a + m})
        if m >= 2:
            a2 = rng.randint(0, m // 2)
            ops.append({'op': 'slice', 'a': a2, 'b': rng.randint(a2 + 1, m)})     # a slice of a slice
    if cs and not cs_first:
        ops.append(cs)
    return ops


# ------------------------------------------------------------------------------- derivations (views, cats)
def gen_derive(rng, R, depth=0):
    """a chain of row selections / concatenations; returns (ops, resulting number of rows)"""
    ops = []
    n = R
    for _ in range(rng.choice([0, 1, 1, 1, 2, 3])):
        u = rng.random()
        if u < .35:
            a = rng.randint(0, n // 2)
            b = rng.randint(min(n, a + (n + 1) // 3), n)
            if rng.random() < .3 and n >= 5:
                a, b = 2, 5
            ops.append({'op': 'slice', 'a': a, 'b': b})
            n = b - a
        elif u < .6:
            if n == 0:
                idx = []
            elif rng.random() < .3 and n >= 4:
                idx = [3, 1, 1]
            else:
                idx = [rng.randrange(n) for _ in range(rng.choice([0, 1, 2, 3, 5, n, n + 2]))]
            ops.append({'op': 'index', 'idx': idx, 'as': rng.choice(['list', 'tensor'])})
            n = len(idx)
        elif u < .7:
            bs = [rng.random() < .7 for _ in range(n)]
            ops.append({'op': 'mask', 'bs': bs})
            n = sum(bs)
        elif u < .75:
            ops.append({'op': 'slice', 'a': 0, 'b': 0})
            n = 0
        elif depth == 0:
            parts = []
            tot = 0
            for _ in range(rng.choice([1, 2, 2, 3])):
                sub, k = gen_derive(rng, n, depth + 1)
                parts.append(sub)
                tot += k
            ops.append({'op': 'cat', 'parts': parts})
            n = tot
    return ops, n


def col_slice(tf, sel):
    """a frame holding, for every stype named in `sel`, only the columns [a:b) of the container (a column-slice
    view of the nested / embedding / dense storage) and the matching column names"""
    feats, names = dict(tf.feat_dict), {k: list(v) for k, v in tf.col_names_dict.items()}
    for name, (a, b) in sel.items():
        st = stype(name)
        if st not in feats:
            continue
        f = feats[st]
        feats[st] = {k: v[:, a:b] for k, v in f.items()} if isinstance(f, dict) else f[:, a:b]
        names[st] = names[st][a:b]
    return TensorFrame(feats, names, tf.y)


def apply_derive(tf, ops):
    for op in ops:
        if op['op'] == 'slice':
            tf = tf[op['a']:op['b']:op['s']] if op.get('s') else tf[op['a']:op['b']]
        elif op['op'] == 'colslice':
            tf = col_slice(tf, op['sel'])
        elif op['op'] == 'index':
            tf = tf[torch.tensor(op['idx'], dtype=torch.long)] if op.get('as') == 'tensor' else tf[list(op['idx'])]
        elif op['op'] == 'mask':
            tf = tf[torch.tensor(op['bs'], dtype=torch.bool)]
        elif op['op'] == 'cat':
            tf = torch_frame.cat([apply_derive(tf, sub) for sub in op['parts']], dim=0)
        else:
            raise AssertionError(op)
    return tf


def derive_labels(ops):
    labs = []
    for op in ops:
        labs.append(op['op'] + (':step' if op.get('s') else ''))
        if op['op'] == 'cat':
            for sub in op['parts']:
                labs += ['in-cat:' + l for l in derive_labels(sub)]
    return labs


# ------------------------------------------------------------------------------- statistics values
def gen_stats(rng, colnames, big_size=None):
    """hand-made col_stats holding python scalars, numpy scalars, lists, tuples, dicts, tensors, arrays, or None.
    `big_size`: one statistic of one column is a list / tensor of that length."""
    if rng.random() < .12 and big_size is None:
        return None
    out = {}
    names = [s.name for s in StatType]
    big_col = rng.choice(colnames) if (big_size is not None and colnames) else None
    for c in colnames:
        d = {}
        k = rng.randint(0, 4) if len(colnames) <= 40 else rng.choice([0, 0, 1])
        for st in rng.sample(names, min(k, len(names))):
            d[st] = gen_stat_value(rng)
        if c == big_col:
            d[rng.choice(names)] = gen_stat_value(rng, size=big_size)
        out[c] = d
    return out


STAT_F64 = [0.1, 1.0 / 3.0, 2.0 ** 24 + 1, 1700000001.0, 1e39, -1e39, 1.7e308, 5e-324, float('inf'), float('-inf'),
            -0.0, 2.0 ** 53 + 2]
STAT_STR = ['a', 'b c', '', '-1', 'nan', 'None', '<NA>', 'a\x00', 'É', 'sports', 'sportswear', 'a|b']
NP_TYPES = ['float64', 'float32', 'float16', 'int64', 'int32', 'int16', 'int8', 'uint8', 'uint64', 'bool_']
T_TYPES = ['float32', 'float64', 'int64', 'int32', 'bool', 'uint8', 'int16', 'float16']
for _k in ('uint8', 'int16', 'float16', 'int8'):
    DTYPES.setdefault(_k, getattr(torch, _k))


def gen_stat_value(rng, depth=0, size=None):
    """one statistics value: python / numpy scalars of every width, special floats, big ints, strings, None, bool,
    tensors (0-d, 1-d, 2-d, empty; 8 dtypes), numpy arrays, lists / tuples / dicts of these (nested).  `size`:
    length wanted for a list / tensor (the number of categories, quantiles ... is a size too)."""
    u = rng.random()
    if size is not None:
        u = rng.choice([.5, .66, .8, .8])
    if u < .10:
        return {'py': 'float', 'v': _rnd_float(rng, .15)}
    if u < .16:
        return {'py': 'f64', 'bits': core.float_bits(rng.choice(STAT_F64))}
    if u < .24:
        return {'py': 'int', 'v': rng.choice([rng.randint(-5, 2000), -1, 2 ** 31, 2 ** 53 + 1, 2 ** 63 - 1, -2 ** 63,
                                              2 ** 70, 256, 257])}
    if u < .28:
        return {'py': 'bool', 'v': rng.random() < .5}
    if u < .42:
        t = rng.choice(NP_TYPES)
        v = rng.randint(0, 1) if t == 'bool_' else rng.randint(0, 8) if t.startswith('uint') else rng.randint(-8, 8) * 0.5
        return {'np': t, 'v': v}
    if u < .56:
        dt = rng.choice(T_TYPES)
        shape = rng.choice(['1d', '1d', '1d', '0d', '2d', 'empty']) if size is None else '1d'
        n = size if size is not None else {'0d': 1, 'empty': 0, '2d': 6}.get(shape, rng.randint(1, 4))
        lo = 0 if dt in ('bool', 'uint8') else -3
        hi = 1 if dt == 'bool' else 9
        return {'tensor': {'dtype': dt, 'data': [rng.randint(lo, hi) for _ in range(n)], 'shape': shape}}
    if u < .62:
        dt = rng.choice(['float64', 'float32', 'int64', 'bool', 'uint8'])
        n = size if size is not None else rng.randint(0, 4)
        return {'ndarray': {'dtype': dt, 'data': [rng.randint(0, 1) if dt == 'bool' else rng.randint(0, 9) for _ in range(n)]}}
    if u < .68:
        return {'py': 'str', 'v': rng.choice(STAT_STR)}
    if u < .72:
        return {'py': 'none'}
    if depth < 2:
        n = size if size is not None else rng.randint(0, 3)
        if size is not None:
            # a long, flat list (e.g. COUNT of many categories: (names, counts))
            kind = rng.choice(['ints', 'strs', 'floats', 'pair'])
            if kind == 'pair':
                return {'tuple': [{'list': [{'py': 'str', 'v': f'c{i}'} for i in range(n)]},
                                  {'list': [{'py': 'int', 'v': (i * 7) % 301} for i in range(n)]}]}
            mk = {'ints': lambda i: {'py': 'int', 'v': (i * 37) % 1009 - 4},
                  'strs': lambda i: {'py': 'str', 'v': STAT_STR[i % len(STAT_STR)] + str(i // len(STAT_STR))},
                  'floats': lambda i: {'py': 'float', 'v': ((i * 13) % 81 - 40) * 0.25}}[kind]
            return {'list': [mk(i) for i in range(n)]}
        items = [gen_stat_value(rng, depth + 1) for _ in range(n)]
        v = rng.random()
        if v < .5:
            return {'list': items}
        if v < .8:
            return {'tuple': items}
        return {'dict': [[rng.choice(['k', 'MEAN', '', 'a b', '0']) + str(i), it] for i, it in enumerate(items)]}
    return {'py': 'int', 'v': 1}


def build_stat_value(s):
    if 'py' in s:
        if s['py'] == 'float':
            return fl(s['v'])
        if s['py'] == 'f64':
            return core.bits_float(s['bits'])
        if s['py'] == 'none':
            return None
        return s['v']
    if 'np' in s:
        return getattr(np, s['np'])(s['v'])
    if 'tensor' in s:
        t = torch.tensor(s['tensor']['data'], dtype=DTYPES[s['tensor']['dtype']])
        shape = s['tensor'].get('shape', '1d')
        if shape == '0d':
            return t.reshape(())
        if shape == '2d':
            return t.reshape(2, 3)
        return t
    if 'ndarray' in s:
        return np.array(s['ndarray']['data'], dtype=s['ndarray']['dtype'])
    if 'list' in s:
        return [build_stat_value(v) for v in s['list']]
    if 'dict' in s:
        return {k: build_stat_value(v) for k, v in s['dict']}
    return tuple(build_stat_value(v) for v in s['tuple'])


def build_stats(spec):
    if spec is None:
        return None
    return {c: {StatType[k]: build_stat_value(v) for k, v in d.items()} for c, d in spec.items()}


# ------------------------------------------------------------------------------- datasets
def _h(s, k):
    """a deterministic string hash (python's own `hash` is salted per process)"""
    x = 1469598103934665603
    for ch in s:
        x = ((x ^ ord(ch)) * 1099511628211) % (1 << 61)
    return (x >> (3 * k)) % 1000003


class StubEmbedder:
    """text / image embedder stub: list[str] -> [n, dim] float32, a pure function of each string"""

    def __init__(self, dim):
        self.dim = dim
        self.calls = 0

    def __call__(self, xs):
        self.calls += 1
        return torch.tensor([[(_h(str(s), k) % 33 - 16) * 0.25 for k in range(self.dim)] for s in xs],
                            dtype=torch.float32).reshape(len(xs), self.dim)


class StubTokenizer:
    """white-space tokenizer stub returning one dict of 1-D tensors per sentence (or the batched form).
    `extra='ragged'`: a further output `aux_ids` whose length per sentence differs from that of `input_ids`
    (a pure function of the sentence, like the other outputs)."""

    def __init__(self, batched=False, extra=None):
        self.batched = batched
        self.extra = extra
        self.calls = 0

    def __call__(self, xs):
        self.calls += 1
        ids = [torch.tensor([_h(t, 0) % 64 for t in str(s).split(' ') if t != ''], dtype=torch.long) for s in xs]
        masks = [torch.ones(len(i), dtype=torch.bool) for i in ids]
        outs = {'input_ids': ids, 'attention_mask': masks}
        if self.extra == 'ragged':
            outs['aux_ids'] = [torch.tensor([_h(str(s), k) % 7 for k in range(_h(str(s), 1) % 4)], dtype=torch.long)
                               for s in xs]
        if self.batched:
            res = {}
            for key, ts in outs.items():
                L = max([len(t) for t in ts] + [1])
                pad = False if key == 'attention_mask' else -1
                res[key] = torch.stack([torch.nn.functional.pad(t, (0, L - len(t)), value=pad) for t in ts])
            return res
        return [{k: outs[k][i] for k in outs} for i in range(len(xs))]


WORDS = ['red', 'green', 'blue', 'cat', 'dog', 'tensor', 'frame', 'x', 'yy', 'zzz']
CATS = ['a', 'b', 'c', 'd', 'e']


def gen_column(rng, name, n, clean=False):
    """values of one data-frame column of the given stype (JSON-able)"""
    miss = 0 if clean else rng.choice([0, 0, .15])

    def m():
        return rng.random() < miss
    if name == 'numerical':
        return [None if m() else rng.randint(-40, 40) * 0.25 for _ in range(n)]
    if name == 'categorical':
        return [None if m() else rng.choice(CATS[:rng.choice([2, 3, 5])]) for _ in range(n)]
    if name == 'multicategorical':
        return [None if m() else '|'.join(rng.sample(CATS, rng.randint(0, 3))) for _ in range(n)]
    if name == 'sequence_numerical':
        return [None if m() else [rng.randint(-8, 8) * 0.5 for _ in range(rng.randint(0, 4))] for _ in range(n)]
    if name == 'timestamp':
        return [None if m() else f'{rng.randint(1995, 2030):04d}-{rng.randint(1, 12):02d}-{rng.randint(1, 28):02d}'
                for _ in range(n)]
    if name in ('text_embedded', 'text_tokenized'):
        return [' '.join(rng.choice(WORDS) for _ in range(rng.randint(1, 4))) for _ in range(n)]
    if name == 'image_embedded':
        return [f'img/{rng.choice(WORDS)}_{rng.randint(0, 9)}.png' for _ in range(n)]
    if name == 'embedding':
        return None     # filled by the caller (fixed width per column)
    raise AssertionError(name)


def col_values(col, which):
    """the values of a data-frame column: written out, or (large groups) generated from an explicit seed"""
    v = col[which]
    if isinstance(v, dict) and 'gen' in v:
        import random
        r = random.Random(v['gen'])
        if col['stype'] == 'embedding':
            return [[r.randint(-8, 8) * 0.25 for _ in range(v['w'])] for _ in range(v['n'])]
        return gen_column(r, col['stype'], v['n'], clean=v.get('clean', False))
    return v


def gen_group(rng, gid, n=None):
    """constructor arguments + data of one family of datasets (they share args, hence cache files).
    `n`: number of rows (large groups carry a seed per column instead of the values)."""
    big = n is not None
    n = rng.choice([1, 2, 3, 4, 6, 8]) if n is None else n
    k = rng.choice([1, 2, 3, 4, 5, 9]) if not big else rng.choice([1, 2, 3, 4])
    names = rng.sample(ALL_STYPES, k)
    if rng.random() < .35 and 'text_tokenized' not in names:
        names.append('text_tokenized')
    if rng.random() < .35 and 'text_embedded' not in names:
        names.append('text_embedded')
    if big and rng.random() < .5 and 'embedding' not in names:
        names.append('embedding')
    cols = []
    for name in names:
        for r in range(rng.choice([1, 1, 2])):
            col = {'name': f'{name[:4]}{r}_{gid}', 'stype': name}
            if name == 'embedding':
                w = rng.choice([1, 2, 3]) if not big else rng.choice([1, 3, 17, 33, 65])
                if big:
                    col['values'] = {'gen': rng.randrange(2 ** 31), 'n': n, 'w': w}
                else:
                    col['values'] = [[rng.randint(-8, 8) * 0.25 for _ in range(w)] for _ in range(n)]
                col['new'] = [[rng.randint(-8, 8) * 0.25 for _ in range(w)] for _ in range(3)]
            else:
                col['values'] = {'gen': rng.randrange(2 ** 31), 'n': n} if big else gen_column(rng, name, n)
                col['new'] = gen_column(rng, name, 3)
            cols.append(col)
    rng.shuffle(cols)
    target = None
    tmode = rng.choice(['none', 'none', 'num', 'cat'])
    if tmode == 'num':
        target = {'name': f'y_{gid}', 'stype': 'numerical',
                  'values': {'gen': rng.randrange(2 ** 31), 'n': n, 'clean': True} if big else
                  gen_column(rng, 'numerical', n, clean=True),
                  'new': gen_column(rng, 'numerical', 3, clean=True)}
    elif tmode == 'cat':
        vals = [rng.choice(CATS[:3]) for _ in range(n)]
        target = {'name': f'y_{gid}', 'stype': 'categorical', 'values': vals,
                  'new': [rng.choice(sorted(set(vals))) for _ in range(3)]}
    tok_batched = rng.random() < .3
    return {'gid': gid, 'n': n, 'cols': cols, 'target': target,
            'emb_dim': rng.choice([1, 2, 4]) if not big else rng.choice([2, 4, 17, 33]),
            'img_dim': rng.choice([1, 3]), 'tok_batched': tok_batched,
            'tok_extra': 'ragged' if rng.random() < .3 else None,
            'tok_batch_size': rng.choice([None, None, 2]) if not big else rng.choice([None, 64, 257]),
            'emb_batch_size': rng.choice([None, None, 2]) if not big else rng.choice([None, 64, 257]),
            'new_with_target': rng.random() < .5}


def _series(values, name):
    if name in ('numerical',):
        return pd.Series([float('nan') if v is None else v for v in values], dtype='float64')
    return pd.Series(list(values), dtype=object)


def group_df(group, which='values'):
    cols = list(group['cols'])
    if group['target'] is not None and (which == 'values' or group.get('new_with_target')):
        cols = cols + [group['target']]
    return pd.DataFrame({c['name']: _series(col_values(c, which), c['stype']) for c in cols})


class Unusable:
    """stands in for a data frame that must not be needed: any use raises"""

    def __getattr__(self, item):
        raise RuntimeError(f'the data frame was touched ({item})')

    def __getitem__(self, item):
        raise RuntimeError('the data frame was touched ([])')

    def __len__(self):
        raise RuntimeError('the data frame was touched (len)')


def make_dataset(group, usable=True):
    """a fresh, unmaterialised Dataset built from the group's constructor arguments"""
    df = group_df(group)
    col_to_stype = {c['name']: stype(c['stype']) for c in group['cols']}
    tgt = None
    if group['target'] is not None:
        tgt = group['target']['name']
        col_to_stype[tgt] = stype(group['target']['stype'])
    kw = {}
    names = {c['stype'] for c in group['cols']}
    if 'text_embedded' in names:
        kw['col_to_text_embedder_cfg'] = TextEmbedderConfig(text_embedder=StubEmbedder(group['emb_dim']),
                                                            batch_size=group['emb_batch_size'])
    if 'image_embedded' in names:
        kw['col_to_image_embedder_cfg'] = ImageEmbedderConfig(image_embedder=StubEmbedder(group['img_dim']),
                                                              batch_size=group['emb_batch_size'])
    if 'text_tokenized' in names:
        kw['col_to_text_tokenizer_cfg'] = TextTokenizerConfig(text_tokenizer=StubTokenizer(group['tok_batched'], group.get('tok_extra')),
                                                              batch_size=group['tok_batch_size'])
    ds = Dataset(df, col_to_stype, target_col=tgt, col_to_sep='|', col_to_time_format='%Y-%m-%d', **kw)
    if not usable:
        ds.df = Unusable()
    return ds


def quiet(fn, *a, **k):
    """run library code with its warnings (weights_only fallback, pandas) silenced"""
    with warnings.catch_warnings():
        warnings.simplefilter('ignore')
        return fn(*a, **k)


def canon_result(tf, stats):
    return {'frame': canon_frame(tf), 'stats': canon_stats(stats)}


def is_nan_bits(b):
    return math.isnan(core.bits_float(b))


# ------------------------------------------------------------------ path shapes, rewriting one path, file sizes
# how a caller may name the cache file.  Every shape refers to a file inside the case's temp directory, which is the
# working directory while the real code runs: a bare file name, './name', a relative path with a directory, an absolute
# path, the same as pathlib.Path / os.PathLike objects, a directory name containing blanks and dots.
PATH_SHAPES = ['abs', 'abs', 'bare', 'bare', 'dot', 'rel-dir', 'pathlib', 'pathlib-bare', 'pathlib-rel-dir', 'abs-nested', 'fspath']
SAME_FILE_SHAPES = ['abs', 'abs', 'bare', 'bare', 'dot', 'pathlib', 'pathlib-bare', 'fspath']     # all denote <tmp>/<name>


class _FsPath:
    """an os.PathLike that is neither str nor pathlib.Path"""

    def __init__(self, p):
        self.p = p

    def __fspath__(self):
        return self.p


def path_arg(tmp, name, shape):
    """-> (the object handed to save / load / materialize, the absolute path it denotes).  Needed directories are created
    (a missing directory makes torch.save raise in the unchanged library: observed, not generated)"""
    import pathlib
    shape = shape or 'abs'
    sub = {'rel-dir': 'sub', 'pathlib-rel-dir': 'sub', 'abs-nested': os.path.join('a', 'b c.d')}.get(shape)
    if sub:
        os.makedirs(os.path.join(tmp, sub), exist_ok=True)
    rel = os.path.join(sub, name) if sub else name
    real = os.path.join(tmp, rel)
    arg = {'abs': real, 'abs-nested': real, 'bare': name, 'dot': os.path.join('.', name), 'rel-dir': rel,
           'pathlib': pathlib.Path(real), 'pathlib-bare': pathlib.Path(name), 'pathlib-rel-dir': pathlib.Path(rel),
           'fspath': _FsPath(real)}[shape]
    return arg, real


class in_dir:
    """run with `d` as the working directory"""

    def __init__(self, d):
        self.d = d

    def __enter__(self):
        self.old = os.getcwd()
        os.chdir(self.d)

    def __exit__(self, *exc):
        os.chdir(self.old)
        return False


def scribbled_copy(tf):
    """a frame of the same schema, shapes and dtypes whose every stored value differs (a refreshed table)"""
    import torch_frame

    def ch(t):
        t = t.clone().contiguous()
        if t.numel():
            if t.is_floating_point():
                t = torch.nan_to_num(t, nan=7.0, posinf=3.0, neginf=-3.0) * -3.0 + 1.5
            elif t.dtype == torch.bool:
                t = ~t
            else:
                t = t + 7
        return t

    def cl(x):
        if isinstance(x, dict):
            return {k: cl(v) for k, v in x.items()}
        if isinstance(x, torch.Tensor):
            return ch(x)
        return x.__class__(x.num_rows, x.num_cols, ch(x.values), x.offset.clone().contiguous())
    return torch_frame.TensorFrame({st: cl(f) for st, f in tf.feat_dict.items()},
                                   {st: list(c) for st, c in tf.col_names_dict.items()},
                                   None if tf.y is None else ch(tf.y))


def frame_tensors(tf):
    """every tensor of a frame, in a fixed order"""
    out = []
    for st in sorted(tf.feat_dict, key=lambda x: x.value):
        f = tf.feat_dict[st]
        for p_ in ([f[k] for k in sorted(f)] if isinstance(f, dict) else [f]):
            out += [p_] if isinstance(p_, torch.Tensor) else [p_.values, p_.offset]
    if tf.y is not None:
        out.append(tf.y)
    return out


def tensors_identical(a, b):
    """bit-level equality of two tensor lists (dtype, shape, payload; NaN == NaN), without python lists"""
    if len(a) != len(b):
        return False
    for x, y in zip(a, b):
        if x.dtype != y.dtype or x.shape != y.shape:
            return False
        if x.numel() and not torch.equal(x.contiguous().view(torch.uint8), y.contiguous().view(torch.uint8)):
            return False
    return True


def rewrite_scenario(spec):
    """one path written twice (spec: bytes wanted, seed, path shape): save(A, p); a = load(p); save(B, p) with B of the
    same schema and size but different content; then `a` - the EARLIER result - must still equal A, load(p) must return B,
    and a second reader of the first file must not be affected by writes into `a`.  Frames of `bytes` payload (tall float32 /
    int64 columns + a ragged column + y), compared tensor-wise at the bit level.  -> list of findings"""
    import tempfile
    import shutil
    import numpy as np
    import torch_frame
    from torch_frame.data import MultiNestedTensor
    nbytes = spec['bytes']
    R = max(4, nbytes // 40)

    def build(salt):
        # (the same draws for both frames: same schema, sizes and ragged layout, every value shifted by the salt)
        rs = np.random.RandomState(spec['seed'])
        num = torch.from_numpy(rs.standard_normal((R, 3)).astype('float32')) + salt
        num[rs.randint(0, R, size=max(1, R // 50)), 0] = float('nan')
        cat = torch.from_numpy(rs.randint(-1, 9, size=(R, 1)).astype('int64')) + salt
        lens = rs.randint(0, 3, size=R)
        off = torch.from_numpy(np.concatenate([[0], np.cumsum(lens)]).astype('int64'))
        mc = MultiNestedTensor(R, 1, torch.from_numpy(rs.randint(0, 5, size=int(lens.sum())).astype('int64')) + salt, off)
        return torch_frame.TensorFrame({torch_frame.numerical: num, torch_frame.categorical: cat,
                                        torch_frame.multicategorical: mc},
                                       {torch_frame.numerical: ['n0', 'n1', 'n2'], torch_frame.categorical: ['c'],
                                        torch_frame.multicategorical: ['m']},
                                       torch.from_numpy(rs.standard_normal(R).astype('float32')) + salt)
    out = []
    tmp = tempfile.mkdtemp(prefix='verif_c11_rw_')
    try:
        with in_dir(tmp):
            arg, real = path_arg(tmp, 'table.pt', spec.get('shape'))
            A = build(0)
            statsA = {'n0': {'MEAN': 0.5, 'T': torch.arange(5)}}
            quiet(torch_frame.save, A, statsA, arg)
            if not os.path.isfile(real):
                return [('rewrite/save-writes-nothing', f'save returned normally for the path {arg!r} (working directory = the '
                         f'directory of the file) but no file exists at {real}', 'a file', 'missing')]
            size = os.path.getsize(real)
            a, sa = quiet(torch_frame.load, arg)
            a2, _ = quiet(torch_frame.load, arg)
            refA = [t.clone() for t in frame_tensors(A)]
            if not tensors_identical(frame_tensors(a), refA):
                out.append(('rewrite/roundtrip', f'load(save(A)) != A for a {size}-byte file', None, None))
            # the table is refreshed: same schema, same sizes, other content - through the same path
            B = build(3)
            statsB = {'n0': {'MEAN': 7.5, 'T': torch.arange(5) + 3}}
            quiet(torch_frame.save, B, statsB, arg)
            if not tensors_identical(frame_tensors(a), refA):
                out.append(('rewrite/earlier-result-changed', f'a frame loaded from a {size}-byte file changed when the same path '
                            'was written again', 'the frame that was loaded', 'the content of the new file'))
            if not (torch.equal(sa['n0']['T'], torch.arange(5)) and sa['n0']['MEAN'] == 0.5):
                out.append(('rewrite/earlier-stats-changed', f'statistics loaded from a {size}-byte file changed when the same '
                            'path was written again', None, None))
            b, sb = quiet(torch_frame.load, arg)
            if not tensors_identical(frame_tensors(b), frame_tensors(B)) or sb['n0']['MEAN'] != 7.5:
                out.append(('rewrite/stale-read', f'after save(B, p) over an existing {size}-byte file, load(p) does not return B',
                            None, None))
            # a write into one loaded frame stays there
            before = [t.clone() for t in frame_tensors(b)]
            for t in frame_tensors(a2):
                if t.numel() and t.is_floating_point():
                    t.mul_(0.0)
            b2, _ = quiet(torch_frame.load, arg)
            if not tensors_identical(frame_tensors(b2), before) or not tensors_identical(frame_tensors(b), before):
                out.append(('rewrite/write-into-loaded-frame-leaks', 'an in-place write into a loaded frame changed the file or '
                            'another loaded frame', None, None))
            spec['observed_file_bytes'] = size
    finally:
        shutil.rmtree(tmp, ignore_errors=True)
    return out
